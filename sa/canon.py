"""Canonical form of the function bodies ("normalised program").

The rules of this checker are queries over the *shape* of the code.  A shape
query is only worth anything if behaviour-preserving edits do not change its
answer, so every function body is first rewritten into a canonical form by
local, behaviour-preserving steps (each step maps two spellings of the same
computation onto one); all later layers (model, types, effects, CFG, rules)
only ever see the canonical form.

Steps (applied to a fixpoint, bounded):

 C1  tests            ``not not e`` -> ``e``; ``not (a is b)`` -> ``a is not b`` (also in/==);
                      ``len(e) == 0`` -> ``not e``; ``len(e) != 0 / > 0 / >= 1`` -> ``e`` (test position);
                      ``e._children or []`` -> ``e.children`` (the property's own definition)
 C2  if / else        ``if not c: A else: B`` -> ``if c: B else: A``; ``else: pass`` dropped;
                      else-after-terminator flattened (``if c: return x`` / rest);
                      ``if a: if b: X`` -> ``if a and b: X``
 C3  guards           ``if c: return|continue`` followed by REST up to the end of the function / loop body
                      -> ``if not c: REST``; trailing bare ``return`` / ``continue`` dropped; ``return None`` -> ``return``
 C4  conditional expr ``x = A if c else B`` -> ``if c: x = A else: x = B``; same for ``return``
 C5  aliases          a local bound once to a pure expression (attribute chains, names, constants, comparisons,
                      ``len``/``isinstance``...) whose constituents cannot be rebound between the binding and a use
                      is replaced by that expression at every use (copy propagation) and the binding dropped
 C6  new helpers      a call to a private function that is *not* a member of the frozen list of functions of the
                      reference tree (sa/known_funcs.py) is replaced by the callee's (canonical) body with the
                      parameters substituted, when the callee is straight-line enough (see _inline_*);
                      extraction of a helper is thereby undone
 C7  scans            ``if any(c for x in it): raise`` -> ``for x in it: if c: raise``;
                      ``v = next((e for x in it if c), None); if v is not None: <raise>`` -> the same loop;
                      ``acc = []; for x in it: [if c:] acc.append(e)`` -> ``acc = [e for x in it if c]``;
                      ``list(filter(lambda x: c, it))`` -> ``[x for x in it if c]``

Positions (lineno) of rewritten statements are kept from the original
statements (inlined helper statements take the call's position), so reports
still point into the real file.  Nothing here decides anything: a mutant is
canonicalised exactly like correct code.
"""
from __future__ import annotations

import ast
import copy
import os
from typing import Dict, List, Optional, Sequence, Set, Tuple

FuncNode = (ast.FunctionDef, ast.AsyncFunctionDef)
TERMINATORS = (ast.Return, ast.Raise, ast.Continue, ast.Break)
PURE_BUILTINS = {"len", "isinstance", "id", "type", "bool", "callable", "hasattr", "getattr", "issubclass"}


def enabled(step: str) -> bool:
    v = os.environ.get("SA_CANON", "all")
    if v in ("0", "none", "off"):
        return False
    if v in ("all", "1", ""):
        return True
    return step in v.split(",")


# --------------------------------------------------------------------------- helpers
def terminates(block: Sequence[ast.stmt]) -> bool:
    if not block:
        return False
    last = block[-1]
    if isinstance(last, TERMINATORS):
        return True
    if isinstance(last, ast.If):
        return bool(last.orelse) and terminates(last.body) and terminates(last.orelse)
    if isinstance(last, (ast.With, ast.AsyncWith)):
        return terminates(last.body)
    return False


def _loc(new: ast.AST, old: ast.AST) -> ast.AST:
    ast.copy_location(new, old)
    for n in ast.walk(new):
        if not hasattr(n, "lineno") and isinstance(n, (ast.expr, ast.stmt)):
            ast.copy_location(n, old)
    return new


# order comparisons are negated as for totally ordered values (the package compares ints / indices / lengths only)
_NEG = {ast.Is: ast.IsNot, ast.IsNot: ast.Is, ast.In: ast.NotIn, ast.NotIn: ast.In, ast.Eq: ast.NotEq, ast.NotEq: ast.Eq,
        ast.Lt: ast.GtE, ast.GtE: ast.Lt, ast.Gt: ast.LtE, ast.LtE: ast.Gt}


def negate(e: ast.expr) -> ast.expr:
    if isinstance(e, ast.UnaryOp) and isinstance(e.op, ast.Not):
        return e.operand
    if isinstance(e, ast.Compare) and len(e.ops) == 1 and type(e.ops[0]) in _NEG:
        return _loc(ast.Compare(left=e.left, ops=[_NEG[type(e.ops[0])]()], comparators=e.comparators), e)  # type: ignore[return-value]
    if isinstance(e, ast.Constant) and isinstance(e.value, bool):
        return _loc(ast.Constant(value=not e.value), e)  # type: ignore[return-value]
    return _loc(ast.UnaryOp(op=ast.Not(), operand=e), e)  # type: ignore[return-value]


_NEG_OPS = (ast.IsNot, ast.NotIn, ast.NotEq)


def neg_count(e: ast.expr) -> int:
    """How many negative leaves a test has (`not x`, `is not`, `not in`, `!=`)."""
    if isinstance(e, ast.UnaryOp) and isinstance(e.op, ast.Not):
        return 1 + neg_count(e.operand)
    if isinstance(e, ast.BoolOp):
        return sum(neg_count(v) for v in e.values)
    if isinstance(e, ast.Compare) and len(e.ops) == 1 and isinstance(e.ops[0], _NEG_OPS):
        return 1
    return 0


def prefer_negation(e: ast.expr) -> Optional[ast.expr]:
    """The negation of test e (negation normal form) if it has strictly fewer
    negative leaves than e itself - the orientation both arms of an if/else are
    put in; None to keep e."""
    n = simplify_test(_loc(ast.UnaryOp(op=ast.Not(), operand=copy.deepcopy(e)), e))  # type: ignore[arg-type]
    if neg_count(n) < neg_count(e):
        return n
    return None


def _is_len_of(e: ast.expr) -> Optional[ast.expr]:
    if isinstance(e, ast.Call) and isinstance(e.func, ast.Name) and e.func.id == "len" and len(e.args) == 1 and not e.keywords:
        return e.args[0]
    return None


def _const(e: ast.expr, v) -> bool:
    return isinstance(e, ast.Constant) and type(e.value) is type(v) and e.value == v


def norm_name(e: ast.AST) -> str:
    """Dotted name of a Name / Attribute chain ('' for anything else)."""
    if isinstance(e, ast.Name):
        return e.id
    if isinstance(e, ast.Attribute):
        b_ = norm_name(e.value)
        return f"{b_}.{e.attr}" if b_ else ""
    return ""


def simplify_test(e: ast.expr) -> ast.expr:
    """Canonical spelling of an expression used for its truth value."""
    if isinstance(e, ast.UnaryOp) and isinstance(e.op, ast.Not):
        inner = simplify_test(e.operand)
        if isinstance(inner, ast.UnaryOp) and isinstance(inner.op, ast.Not):
            return inner.operand
        if isinstance(inner, ast.Compare) and len(inner.ops) == 1 and type(inner.ops[0]) in _NEG:
            return negate(inner)
        if isinstance(inner, ast.BoolOp):
            # De Morgan: negation normal form
            flipped = ast.Or() if isinstance(inner.op, ast.And) else ast.And()
            return simplify_test(_loc(ast.BoolOp(op=flipped, values=[simplify_test(_loc(ast.UnaryOp(op=ast.Not(), operand=v), v)) for v in inner.values]), e))  # type: ignore[arg-type]
        if inner is not e.operand:
            return _loc(ast.UnaryOp(op=ast.Not(), operand=inner), e)  # type: ignore[return-value]
        return e
    if isinstance(e, ast.Call) and isinstance(e.func, ast.Name) and e.func.id == "bool" and len(e.args) == 1 and not e.keywords:
        return simplify_test(e.args[0])  # bool(x) in a test position
    # constants left behind by substituting an argument into an inlined helper: their truth value / type is known
    if isinstance(e, ast.Constant) and not isinstance(e.value, bool) and (e.value is None or isinstance(e.value, (int, str, float))):
        return _loc(ast.Constant(value=bool(e.value)), e)  # type: ignore[return-value]
    if isinstance(e, ast.Call) and isinstance(e.func, ast.Name) and e.func.id == "isinstance" and len(e.args) == 2 and not e.keywords \
            and isinstance(e.args[0], ast.Constant) and e.args[0].value is not None:
        ts_ = e.args[1].elts if isinstance(e.args[1], ast.Tuple) else [e.args[1]]
        known_ = {"int": int, "str": str, "float": float, "bool": bool, "bytes": bytes}
        if all(isinstance(t_, ast.Name) and t_.id in known_ for t_ in ts_):
            return _loc(ast.Constant(value=isinstance(e.args[0].value, tuple(known_[t_.id] for t_ in ts_))), e)  # type: ignore[return-value]
    if isinstance(e, ast.IfExp):
        # boolean-valued conditional expressions in a test position
        t, a, b = e.test, e.body, e.orelse
        if isinstance(a, ast.Constant) and a.value is False:
            return simplify_test(_loc(ast.BoolOp(op=ast.And(), values=[negate(t), b]), e))  # type: ignore[arg-type]
        if isinstance(a, ast.Constant) and a.value is True:
            return simplify_test(_loc(ast.BoolOp(op=ast.Or(), values=[t, b]), e))  # type: ignore[arg-type]
        if isinstance(b, ast.Constant) and b.value is False:
            return simplify_test(_loc(ast.BoolOp(op=ast.And(), values=[t, a]), e))  # type: ignore[arg-type]
        if isinstance(b, ast.Constant) and b.value is True:
            return simplify_test(_loc(ast.BoolOp(op=ast.Or(), values=[negate(t), a]), e))  # type: ignore[arg-type]
        return e
    if isinstance(e, ast.BoolOp):
        vals: List[ast.expr] = []
        for v in e.values:
            sv = simplify_test(v)
            if isinstance(sv, ast.BoolOp) and type(sv.op) is type(e.op):
                vals.extend(sv.values)
            else:
                vals.append(sv)
        # isinstance(x, A) or isinstance(x, B)  ->  isinstance(x, (A, B))
        if isinstance(e.op, ast.Or):
            merged: List[ast.expr] = []
            for v in vals:
                prev = merged[-1] if merged else None
                if (prev is not None and isinstance(v, ast.Call) and isinstance(prev, ast.Call) and isinstance(v.func, ast.Name) and v.func.id == "isinstance"
                        and isinstance(prev.func, ast.Name) and prev.func.id == "isinstance" and len(v.args) == 2 and len(prev.args) == 2
                        and ast.dump(v.args[0]) == ast.dump(prev.args[0]) and is_pure(v.args[0])):
                    def types_of(t):
                        return list(t.elts) if isinstance(t, ast.Tuple) else [t]
                    tup = ast.Tuple(elts=types_of(prev.args[1]) + types_of(v.args[1]), ctx=ast.Load())
                    merged[-1] = _loc(ast.Call(func=prev.func, args=[prev.args[0], tup], keywords=[]), prev)  # type: ignore[assignment]
                else:
                    merged.append(v)
            if len(merged) != len(vals):
                vals = merged
                if len(vals) == 1:
                    return vals[0]
        # neutral / absorbing boolean constants (test position: only the truth value matters)
        is_and = isinstance(e.op, ast.And)
        neutral = [v for v in vals if isinstance(v, ast.Constant) and v.value is (True if is_and else False)]
        absorbing = [v for v in vals if isinstance(v, ast.Constant) and v.value is (False if is_and else True)]
        if absorbing and all(is_pure(v) for v in vals):
            return absorbing[0]
        if neutral:
            vals = [v for v in vals if not any(v is n_ for n_ in neutral)] or [neutral[0]]
            if len(vals) == 1:
                return vals[0]
        if len(vals) != len(e.values) or any(a is not b for a, b in zip(vals, e.values)):
            return _loc(ast.BoolOp(op=e.op, values=vals), e)  # type: ignore[return-value]
        return e
    if isinstance(e, ast.Compare) and len(e.ops) == 1:
        op, l, r = e.ops[0], e.left, e.comparators[0]
        x = _is_len_of(l)
        if x is not None:
            if isinstance(op, ast.Eq) and _const(r, 0):
                return negate(x)
            if (isinstance(op, (ast.NotEq, ast.Gt)) and _const(r, 0)) or (isinstance(op, ast.GtE) and _const(r, 1)):
                return x
            if isinstance(op, ast.Lt) and _const(r, 1):
                return negate(x)
        x = _is_len_of(r)
        if x is not None:
            if isinstance(op, ast.Eq) and _const(l, 0):
                return negate(x)
            if isinstance(op, (ast.NotEq, ast.Lt)) and _const(l, 0):
                return x
    return e


class _ExprCanon(ast.NodeTransformer):
    """C1 on every expression position (test positions are handled where the
    statement is known)."""

    def visit_BoolOp(self, node: ast.BoolOp):
        self.generic_visit(node)
        # e._children or []  ->  e.children
        if isinstance(node.op, ast.Or) and len(node.values) == 2:
            a, b = node.values
            if isinstance(a, ast.Attribute) and a.attr == "_children" and isinstance(b, ast.List) and not b.elts:
                return _loc(ast.Attribute(value=a.value, attr="children", ctx=ast.Load()), node)
        return node

    def visit_JoinedStr(self, node: ast.JoinedStr):
        self.generic_visit(node)
        # f'{x}' -> str(x)   (format(x, '') is str(x) for the values this package formats)
        if len(node.values) == 1 and isinstance(node.values[0], ast.FormattedValue) and node.values[0].conversion == -1 and node.values[0].format_spec is None:
            return _loc(ast.Call(func=ast.Name(id="str", ctx=ast.Load()), args=[node.values[0].value], keywords=[]), node)
        return node

    def visit_BinOp(self, node: ast.BinOp):
        self.generic_visit(node)
        # x + (-k) -> x - k ;  x - (-k) -> x + k
        r = node.right
        neg = None
        if isinstance(r, ast.UnaryOp) and isinstance(r.op, ast.USub):
            neg = r.operand
        elif isinstance(r, ast.Constant) and isinstance(r.value, (int, float)) and not isinstance(r.value, bool) and r.value < 0:
            neg = _loc(ast.Constant(value=-r.value), r)
        if neg is not None and isinstance(node.op, (ast.Add, ast.Sub)):
            return _loc(ast.BinOp(left=node.left, op=ast.Sub() if isinstance(node.op, ast.Add) else ast.Add(), right=neg), node)
        return node

    def _ifexp(self, node: ast.IfExp):
        self.generic_visit(node)
        node.test = simplify_test(node.test)
        # True if c else False -> bool(c) ;  False if c else True -> not c
        if isinstance(node.body, ast.Constant) and isinstance(node.orelse, ast.Constant):
            if node.body.value is True and node.orelse.value is False:
                return _loc(ast.Call(func=ast.Name(id="bool", ctx=ast.Load()), args=[node.test], keywords=[]), node)
            if node.body.value is False and node.orelse.value is True:
                return simplify_test(_loc(ast.UnaryOp(op=ast.Not(), operand=node.test), node))
        # [] if c is None else c  stays (the property itself)
        if isinstance(node.test, ast.UnaryOp) and isinstance(node.test.op, ast.Not):
            node.test, node.body, node.orelse = node.test.operand, node.orelse, node.body
        return node

    @staticmethod
    def _boolean(e: ast.AST) -> bool:
        """e evaluates to a bool (not merely to something truthy / falsy)."""
        if isinstance(e, ast.Compare):
            return True
        if isinstance(e, ast.UnaryOp) and isinstance(e.op, ast.Not):
            return True
        if isinstance(e, ast.Constant) and isinstance(e.value, bool):
            return True
        if isinstance(e, ast.BoolOp):
            return all(_ExprCanon._boolean(v) for v in e.values)
        if isinstance(e, ast.Call) and isinstance(e.func, ast.Name) and e.func.id in ("bool", "isinstance", "issubclass", "callable", "hasattr", "any", "all"):
            return True
        return False

    def visit_UnaryOp(self, node: ast.UnaryOp):
        self.generic_visit(node)
        if isinstance(node.op, ast.UAdd) and isinstance(node.operand, ast.Constant) and isinstance(node.operand.value, (int, float)) and not isinstance(node.operand.value, bool):
            return node.operand  # `+1` (left behind by substituting an offset argument)
        if isinstance(node.op, ast.Not):
            r = simplify_test(node)
            # `not X` is a bool; its simplification (`not not e` -> `e`, `not len(e) == 0` -> `e`) only has e's truth value
            if not self._boolean(r):
                r = _loc(ast.Call(func=_loc(ast.Name(id="bool", ctx=ast.Load()), node), args=[r], keywords=[]), node)
            return r
        return node

    def visit_IfExp(self, node: ast.IfExp):
        r = self._ifexp(node)
        # D[K] if K in D else X  ->  D.get(K[, X])
        if isinstance(r, ast.IfExp) and isinstance(r.test, ast.Compare) and len(r.test.ops) == 1 and isinstance(r.test.ops[0], (ast.In, ast.NotIn)):
            present, absent = (r.body, r.orelse) if isinstance(r.test.ops[0], ast.In) else (r.orelse, r.body)
            K, D = r.test.left, r.test.comparators[0]
            if isinstance(present, ast.Subscript) and ast.dump(present.value) == ast.dump(D) and ast.dump(present.slice) == ast.dump(K) and is_pure(D) and is_pure(K) and is_pure(absent):
                args = [K] if _const(absent, None) else [K, absent]
                return _loc(ast.Call(func=_loc(ast.Attribute(value=D, attr="get", ctx=ast.Load()), r), args=args, keywords=[]), r)
        return r

    def visit_Compare(self, node: ast.Compare):
        self.generic_visit(node)
        # two singleton constants compared by identity (`None is None` left behind by substituting a default)
        if len(node.ops) == 1 and isinstance(node.ops[0], (ast.Is, ast.IsNot)) and isinstance(node.left, ast.Constant) and isinstance(node.comparators[0], ast.Constant) \
                and all(c_.value is None or isinstance(c_.value, bool) for c_ in (node.left, node.comparators[0])):
            same = node.left.value is node.comparators[0].value
            return _loc(ast.Constant(value=same if isinstance(node.ops[0], ast.Is) else not same), node)
        # `N is N` / `N is not N` for one plain name  ->  True / False  (a sentinel threaded through an inlined helper)
        if len(node.ops) == 1 and isinstance(node.ops[0], (ast.Is, ast.IsNot)) and isinstance(node.left, ast.Name) \
                and isinstance(node.comparators[0], ast.Name) and node.left.id == node.comparators[0].id:
            return _loc(ast.Constant(value=isinstance(node.ops[0], ast.Is)), node)
        # constant on the left (`None is x`, `0 == n`)  ->  on the right
        if len(node.ops) == 1 and isinstance(node.left, ast.Constant) and not isinstance(node.comparators[0], ast.Constant) \
                and isinstance(node.ops[0], (ast.Is, ast.IsNot, ast.Eq, ast.NotEq)):
            node.left, node.comparators = node.comparators[0], [node.left]
        # D.get(K, SENTINEL) is SENTINEL  ->  K not in D      (SENTINEL: a NAME_IN_CAPS the mapping cannot hold)
        if len(node.ops) == 1 and isinstance(node.ops[0], (ast.Is, ast.IsNot)) and isinstance(node.comparators[0], ast.Name):
            c, sname = node.left, node.comparators[0].id
            if sname.upper() == sname and isinstance(c, ast.Call) and isinstance(c.func, ast.Attribute) and c.func.attr == "get" and len(c.args) == 2 and not c.keywords \
                    and isinstance(c.args[1], ast.Name) and c.args[1].id == sname and is_pure(c.func.value) and is_pure(c.args[0]):
                op = ast.NotIn() if isinstance(node.ops[0], ast.Is) else ast.In()
                return _loc(ast.Compare(left=c.args[0], ops=[op], comparators=[c.func.value]), node)
        return node

    @staticmethod
    def _iter_children(it: ast.expr) -> ast.expr:
        """`x._children or ()` / `x._children or []` as an iterated expression is the `children` property."""
        if isinstance(it, ast.BoolOp) and isinstance(it.op, ast.Or) and len(it.values) == 2:
            a, b = it.values
            if isinstance(a, ast.Attribute) and a.attr == "_children" and isinstance(b, (ast.Tuple, ast.List)) and not b.elts:
                return _loc(ast.Attribute(value=a.value, attr="children", ctx=ast.Load()), it)
        return it

    def visit_comprehension(self, node: ast.comprehension):
        self.generic_visit(node)
        node.ifs = [simplify_test(t) for t in node.ifs]
        node.iter = self._iter_children(node.iter)
        return node

    def visit_For(self, node: ast.For):
        self.generic_visit(node)
        node.iter = self._iter_children(node.iter)
        return node

    _fresh = [0]

    @classmethod
    def _apply(cls, fn: ast.expr, arg: ast.expr, at: ast.AST) -> ast.expr:
        """The expression `fn(arg)` with the standard callable constructors and lambdas applied."""
        call = _loc(ast.Call(func=fn, args=[arg], keywords=[]), at)
        r = cls._functional(call)
        return r if r is not None else call

    @classmethod
    def _functional(cls, node: ast.Call) -> Optional[ast.expr]:
        """C8: applications of operator.methodcaller/attrgetter/itemgetter, functools.partial and lambdas; filter/map ->
        generator expression; list(<genexp>) -> list comprehension."""
        f = node.func
        kind = _callable_ctor(f)
        plain = not any(isinstance(a, ast.Starred) for a in node.args) and all(k.arg is not None for k in node.keywords)
        if kind == "methodcaller" and len(node.args) == 1 and not node.keywords and plain and f.args and isinstance(f.args[0], ast.Constant) and isinstance(f.args[0].value, str):
            return _loc(ast.Call(func=_loc(ast.Attribute(value=node.args[0], attr=f.args[0].value, ctx=ast.Load()), node), args=list(f.args[1:]), keywords=list(f.keywords)), node)
        if kind == "attrgetter" and len(node.args) == 1 and not node.keywords and plain and len(f.args) == 1 and isinstance(f.args[0], ast.Constant) and isinstance(f.args[0].value, str):
            e: ast.expr = node.args[0]
            for part in f.args[0].value.split("."):
                e = _loc(ast.Attribute(value=e, attr=part, ctx=ast.Load()), node)
            return e
        if kind == "itemgetter" and len(node.args) == 1 and not node.keywords and plain and len(f.args) == 1:
            return _loc(ast.Subscript(value=node.args[0], slice=f.args[0], ctx=ast.Load()), node)
        if kind == "partial" and f.args and not any(isinstance(a, ast.Starred) for a in f.args) and all(k.arg is not None for k in f.keywords):
            later = {k.arg for k in node.keywords}
            return _loc(ast.Call(func=f.args[0], args=list(f.args[1:]) + list(node.args), keywords=[k for k in f.keywords if k.arg not in later] + list(node.keywords)), node)
        # operator.is_not(a, b) -> a is not b  (and friends)
        opname = f.attr if isinstance(f, ast.Attribute) and isinstance(f.value, ast.Name) and f.value.id == "operator" else (f.id if isinstance(f, ast.Name) and f.id in ("is_not", "is_") else None)
        binops = {"is_": ast.Is, "is_not": ast.IsNot, "eq": ast.Eq, "ne": ast.NotEq, "lt": ast.Lt, "le": ast.LtE, "gt": ast.Gt, "ge": ast.GtE}
        if opname in binops and len(node.args) == 2 and not node.keywords and plain:
            return _loc(ast.Compare(left=node.args[0], ops=[binops[opname]()], comparators=[node.args[1]]), node)
        if opname == "contains" and len(node.args) == 2 and not node.keywords and plain:
            return _loc(ast.Compare(left=node.args[1], ops=[ast.In()], comparators=[node.args[0]]), node)
        if opname == "not_" and len(node.args) == 1 and not node.keywords and plain:
            return _loc(ast.UnaryOp(op=ast.Not(), operand=node.args[0]), node)
        if opname == "getitem" and len(node.args) == 2 and not node.keywords and plain:
            return _loc(ast.Subscript(value=node.args[0], slice=node.args[1], ctx=ast.Load()), node)
        # (lambda x: body)(arg)  with a single plain parameter used at most once, or a trivially pure argument
        if isinstance(f, ast.Lambda) and len(node.args) == 1 and not node.keywords and plain:
            a = f.args
            if len(a.args) == 1 and not (a.vararg or a.kwarg or a.kwonlyargs or a.defaults or a.posonlyargs):
                x = a.args[0].arg
                uses = [m for m in ast.walk(f.body) if isinstance(m, ast.Name) and m.id == x]
                nested_bind = any(isinstance(m, (ast.Lambda, ast.comprehension)) for m in ast.walk(f.body))
                if not nested_bind and (isinstance(node.args[0], (ast.Name, ast.Constant)) or len(uses) <= 1):
                    arg = node.args[0]

                    class Sub(ast.NodeTransformer):
                        def visit_Name(self, n: ast.Name):
                            return copy.deepcopy(arg) if n.id == x and isinstance(n.ctx, ast.Load) else n

                    return Sub().visit(copy.deepcopy(f.body))
        if isinstance(f, ast.Name) and f.id in ("filter", "map") and len(node.args) == 2 and not node.keywords and plain:
            fn, it = node.args
            if isinstance(fn, (ast.Name, ast.Attribute, ast.Lambda)) or _callable_ctor(fn) is not None or _const(fn, None):
                cls._fresh[0] += 1
                v = f"_x{cls._fresh[0]}"
                ld = _loc(ast.Name(id=v, ctx=ast.Load()), node)
                if f.id == "filter":
                    cond = ld if _const(fn, None) else cls._apply(fn, ld, node)
                    comp = ast.comprehension(target=_loc(ast.Name(id=v, ctx=ast.Store()), node), iter=it, ifs=[simplify_test(cond)], is_async=0)
                    return _loc(ast.GeneratorExp(elt=_loc(ast.Name(id=v, ctx=ast.Load()), node), generators=[comp]), node)
                if not _const(fn, None):
                    comp = ast.comprehension(target=_loc(ast.Name(id=v, ctx=ast.Store()), node), iter=it, ifs=[], is_async=0)
                    return _loc(ast.GeneratorExp(elt=cls._apply(fn, ld, node), generators=[comp]), node)
        if isinstance(f, ast.Name) and f.id == "list" and len(node.args) == 1 and not node.keywords and isinstance(node.args[0], ast.GeneratorExp):
            g = node.args[0]
            return _loc(ast.ListComp(elt=g.elt, generators=g.generators), node)
        if isinstance(f, ast.Name) and f.id == "set" and len(node.args) == 1 and not node.keywords and isinstance(node.args[0], ast.GeneratorExp):
            g = node.args[0]
            return _loc(ast.SetComp(elt=g.elt, generators=g.generators), node)
        return None

    def visit_Call(self, node: ast.Call):
        self.generic_visit(node)
        # getattr(x, 'name')  ->  x.name
        if isinstance(node.func, ast.Name) and node.func.id == "getattr" and len(node.args) == 2 and not node.keywords \
                and isinstance(node.args[1], ast.Constant) and isinstance(node.args[1].value, str) and node.args[1].value.isidentifier():
            return _loc(ast.Attribute(value=node.args[0], attr=node.args[1].value, ctx=ast.Load()), node)
        # f(*(a, b))  ->  f(a, b)
        if any(isinstance(a_, ast.Starred) and isinstance(a_.value, (ast.Tuple, ast.List)) for a_ in node.args):
            new_args: List[ast.expr] = []
            for a_ in node.args:
                if isinstance(a_, ast.Starred) and isinstance(a_.value, (ast.Tuple, ast.List)):
                    new_args.extend(a_.value.elts)
                else:
                    new_args.append(a_)
            node.args = new_args
        # dict(a=x, b=y) -> {'a': x, 'b': y}
        if isinstance(node.func, ast.Name) and node.func.id == "dict" and not node.args and node.keywords and all(k.arg is not None for k in node.keywords):
            return _loc(ast.Dict(keys=[ast.Constant(value=k.arg) for k in node.keywords], values=[k.value for k in node.keywords]), node)
        # 'lit{}lit'.format(a)  ->  f'lit{a}lit'   (plain positional fields only)
        if isinstance(node.func, ast.Attribute) and node.func.attr == "format" and isinstance(node.func.value, ast.Constant) and isinstance(node.func.value.value, str) \
                and not node.keywords and node.args and not any(isinstance(a_, ast.Starred) for a_ in node.args):
            import re as _re

            tmpl = node.func.value.value
            parts = _re.split(r"(\{\})", tmpl)
            if parts.count("{}") == len(node.args) and not _re.search(r"[{}]", "".join(p_ for p_ in parts if p_ != "{}")):
                vals: List[ast.expr] = []
                it_ = iter(node.args)
                for p_ in parts:
                    if p_ == "{}":
                        vals.append(_loc(ast.FormattedValue(value=next(it_), conversion=-1, format_spec=None), node))
                    elif p_:
                        vals.append(_loc(ast.Constant(value=p_), node))
                return self.visit_JoinedStr(_loc(ast.JoinedStr(values=vals), node))
        if enabled("C8"):
            r = self._functional(node)
            if r is not None:
                return r
        # list(filter(lambda x: c, it)) -> [x for x in it if c]
        if (
            enabled("C7")
            and isinstance(node.func, ast.Name)
            and node.func.id == "list"
            and len(node.args) == 1
            and not node.keywords
            and isinstance(node.args[0], ast.Call)
            and isinstance(node.args[0].func, ast.Name)
            and node.args[0].func.id == "filter"
            and len(node.args[0].args) == 2
            and isinstance(node.args[0].args[0], ast.Lambda)
        ):
            lam, it = node.args[0].args
            a = lam.args
            if len(a.args) == 1 and not (a.vararg or a.kwarg or a.kwonlyargs or a.defaults or a.posonlyargs):
                x = a.args[0].arg
                comp = ast.comprehension(target=ast.Name(id=x, ctx=ast.Store()), iter=it, ifs=[simplify_test(lam.body)], is_async=0)
                return _loc(ast.ListComp(elt=ast.Name(id=x, ctx=ast.Load()), generators=[comp]), node)
        return node


# --------------------------------------------------------------------------- block level
def _bare_return(st: ast.stmt) -> bool:
    return isinstance(st, ast.Return) and (st.value is None or _const(st.value, None))


def _only(block: Sequence[ast.stmt], pred) -> bool:
    return len(block) == 1 and pred(block[0])


def _and(a: ast.expr, b: ast.expr) -> ast.expr:
    vals: List[ast.expr] = []
    for v in (a, b):
        if isinstance(v, ast.BoolOp) and isinstance(v.op, ast.And):
            vals.extend(v.values)
        else:
            vals.append(v)
    return _loc(ast.BoolOp(op=ast.And(), values=vals), a)  # type: ignore[return-value]


def _is_docstring(st: ast.stmt) -> bool:
    return isinstance(st, ast.Expr) and isinstance(st.value, ast.Constant) and isinstance(st.value.value, str)


def _leading_walrus(e: ast.AST) -> Optional[ast.NamedExpr]:
    """The assignment expression that is evaluated first and unconditionally in e, if any."""
    while True:
        if isinstance(e, ast.NamedExpr):
            inner = _leading_walrus(e.value)
            return inner or e
        if isinstance(e, ast.Compare):
            e = e.left
        elif isinstance(e, ast.BoolOp):
            e = e.values[0]
        elif isinstance(e, ast.UnaryOp):
            e = e.operand
        elif isinstance(e, ast.Call) and isinstance(e.func, ast.Name) and e.args and not e.keywords:
            e = e.args[0]
        elif isinstance(e, ast.Attribute):
            e = e.value
        elif isinstance(e, ast.Subscript):
            e = e.value
        else:
            return None


class BlockCanon:
    """C2, C3, C4, C7 over statement lists.  `tail` tells what falling off the
    end of the block means: 'func' (return None), 'loop' (next iteration) or
    None (something follows)."""

    def __init__(self) -> None:
        self.changed = False

    def block(self, stmts: List[ast.stmt], tail: Optional[str]) -> List[ast.stmt]:
        stmts = list(stmts)
        i = 0
        budget = 0
        while i < len(stmts):
            budget += 1
            if budget > 2000:  # pragma: no cover - defensive
                break
            st = stmts[i]
            last = i == len(stmts) - 1
            st = self.stmt(st, tail if last else None)
            stmts[i] = st
            if enabled("C2") and isinstance(st, ast.If) and isinstance(st.test, ast.Constant) and st.test.value is True and not st.orelse:
                # `if True: A; B` (a folded test): the statements themselves
                stmts[i:i + 1] = st.body
                self.changed = True
                continue
            if enabled("C2") and isinstance(st, ast.If) and not st.orelse and all(isinstance(x_, ast.Pass) for x_ in st.body) and is_pure(st.test) and len(stmts) > 1:
                del stmts[i]  # `if c: pass` (what it guarded was moved away)
                self.changed = True
                continue
            if enabled("C2") and isinstance(st, ast.Assert) and isinstance(st.test, ast.Constant) and st.test.value is True and len(stmts) > 1:
                del stmts[i]  # `assert True` (a folded test)
                self.changed = True
                continue
            if enabled("C2") and isinstance(st, (ast.Raise, ast.Return, ast.Continue, ast.Break)) and i + 1 < len(stmts) \
                    and not any(isinstance(x, FuncNode + (ast.ClassDef,)) for s_ in stmts[i + 1:] for x in ast.walk(s_)) \
                    and not any(isinstance(x, (ast.Yield, ast.YieldFrom)) for s_ in stmts[i + 1:] for x in ast.walk(s_)):
                del stmts[i + 1:]  # unreachable after an unconditional exit (left behind by a folded test)
                self.changed = True
            # ---- walrus in leading position of an `if` test / assignment / return  ->  plain assignment first (C5)
            if enabled("C5") and isinstance(st, (ast.If, ast.Assign, ast.Return, ast.Expr)):
                holder = "test" if isinstance(st, ast.If) else "value"
                expr_ = getattr(st, holder, None)
                w_ = _leading_walrus(expr_) if expr_ is not None else None
                if w_ is not None and isinstance(w_.target, ast.Name):
                    self.changed = True
                    asg_ = _loc(ast.Assign(targets=[ast.Name(id=w_.target.id, ctx=ast.Store())], value=w_.value), st)
                    name_ = w_.target.id

                    class _Sub(ast.NodeTransformer):
                        def visit_NamedExpr(self, node):
                            if node is w_:
                                return _loc(ast.Name(id=name_, ctx=ast.Load()), node)
                            return self.generic_visit(node)

                    setattr(st, holder, _Sub().visit(expr_))
                    stmts[i : i + 1] = [asg_, st]  # type: ignore[list-item]
                    continue
            # ---- walrus in a later operand of an `and` test (no else):  if A and (x := E) op ...: B  ->  if A: x = E; if x op ...: B
            if enabled("C5") and isinstance(st, ast.If) and not st.orelse and isinstance(st.test, ast.BoolOp) and isinstance(st.test.op, ast.And):
                vals_ = st.test.values
                k_ = next((j for j, v_ in enumerate(vals_) if j > 0 and _leading_walrus(v_) is not None), None)
                if k_ is not None and not any(isinstance(x, ast.NamedExpr) for v_ in vals_[:k_] for x in ast.walk(v_)):
                    self.changed = True
                    head = vals_[0] if k_ == 1 else _loc(ast.BoolOp(op=ast.And(), values=vals_[:k_]), st)
                    tail_ = vals_[k_] if k_ == len(vals_) - 1 else _loc(ast.BoolOp(op=ast.And(), values=vals_[k_:]), st)
                    inner_ = _loc(ast.If(test=tail_, body=st.body, orelse=[]), st)
                    stmts[i] = _loc(ast.If(test=head, body=[inner_], orelse=[]), st)  # type: ignore[assignment]
                    self._no_merge = getattr(self, "_no_merge", set()) | {id(inner_)}
                    continue
            # ---- C4 conditional expressions at statement level
            if enabled("C4"):
                lifted = self._lift_ifexp(st)
                if lifted is not None:
                    self.changed = True
                    stmts[i : i + 1] = lifted
                    continue
            if isinstance(st, ast.If):
                rest = stmts[i + 1 :]
                # ---- else-after-terminator (C2)
                if enabled("C2") and st.orelse and terminates(st.body):
                    self.changed = True
                    tail_stmts = st.orelse
                    st.orelse = []
                    stmts[i + 1 : i + 1] = tail_stmts
                    continue
                if enabled("C2") and st.orelse and terminates(st.orelse) and not terminates(st.body):
                    self.changed = True
                    body = st.body
                    st.test, st.body, st.orelse = simplify_test(negate(st.test)), st.orelse, []
                    stmts[i + 1 : i + 1] = body
                    continue
                # ---- both "arms" terminate (`if c: T1` followed by a terminating REST): positive orientation (C2)
                if enabled("C2") and not st.orelse and rest and terminates(st.body) and terminates(rest) \
                        and not isinstance(st.body[-1], (ast.Continue, ast.Break)) and not isinstance(rest[-1], (ast.Continue, ast.Break)) \
                        and not any(isinstance(x, FuncNode) for x in rest):
                    pn = prefer_negation(st.test)
                    if pn is not None:
                        self.changed = True
                        body = st.body
                        st.test, st.body = pn, rest
                        stmts[i:] = [st] + body
                        continue
                # ---- guard -> nesting (C3)
                if enabled("C3") and not st.orelse and rest and tail is not None:
                    g = st.body
                    if (tail == "func" and _only(g, _bare_return)) or (tail == "loop" and _only(g, lambda s: isinstance(s, ast.Continue))):
                        self.changed = True
                        new = ast.If(test=simplify_test(negate(st.test)), body=rest, orelse=[])
                        _loc(new, st)
                        stmts[i:] = [new]
                        continue
                # ---- `if c: A...; return` / REST at the tail  ->  `if c: A... else: REST` (C3)
                if enabled("C3") and not st.orelse and rest and tail is not None and len(st.body) > 1:
                    lastb = st.body[-1]
                    if (tail == "func" and _bare_return(lastb)) or (tail == "loop" and isinstance(lastb, ast.Continue)):
                        self.changed = True
                        st.body = st.body[:-1]
                        st.orelse = rest
                        stmts[i:] = [st]
                        continue
                # ---- nested if merge (C2)
                if enabled("C2") and not st.orelse and _only(st.body, lambda s: isinstance(s, ast.If) and not s.orelse
                                                               and not any(isinstance(x, ast.NamedExpr) for x in ast.walk(s.test))):
                    self.changed = True
                    inner = st.body[0]
                    st.test = simplify_test(_and(st.test, inner.test))  # type: ignore[attr-defined]
                    st.body = inner.body  # type: ignore[attr-defined]
                    continue
            # ---- for/else: `for x in it: if c: break` + `else: E (terminating)` followed by REST (terminating)
            #      ->  `for x in it: if c: REST` ; E      (REST only runs after the break, with x bound to that element)
            if enabled("C7") and isinstance(st, ast.For) and st.orelse and terminates(st.orelse) and len(st.body) == 1 and isinstance(st.body[0], ast.If) \
                    and not st.body[0].orelse and _only(st.body[0].body, lambda s_: isinstance(s_, ast.Break)):
                rest_ = stmts[i + 1:]
                if rest_ and terminates(rest_) and not any(isinstance(x, (ast.Break, ast.Continue)) for r_ in rest_ for x in ast.walk(r_)):
                    self.changed = True
                    inner_if = st.body[0]
                    inner_if.body = list(rest_)
                    else_ = list(st.orelse)
                    st.orelse = []
                    stmts[i:] = [st] + else_
                    continue
            # ---- C10 EAFP -> LBYL on a plain mapping lookup
            if enabled("C10"):
                r10 = self._lbyl(st, stmts[i + 1] if not last else None, stmts[i + 2:])
                if r10 is not None:
                    self.changed = True
                    new_stmts, consumed = r10
                    stmts[i : i + consumed] = new_stmts
                    continue
            # ---- C7 scan idioms
            if enabled("C7"):
                r = self._scan_any(st) or self._scan_next(st, stmts[i + 1] if not last else None, stmts[i + 2 :]) or self._scan_next_return(st)
                if r is not None:
                    self.changed = True
                    new_stmts, consumed = r
                    stmts[i : i + consumed] = new_stmts
                    continue
                # yield from (E for X in IT if C)  ->  for X in IT: [if C:] yield E
                if isinstance(st, ast.Expr) and isinstance(st.value, ast.YieldFrom) and isinstance(st.value.value, ast.GeneratorExp):
                    g_ = st.value.value
                    y_ = _loc(ast.Expr(value=_loc(ast.Yield(value=g_.elt), st)), st)
                    lp_ = self._nest(g_.generators, [y_], st)  # type: ignore[list-item]
                    if lp_ is not None:
                        self.changed = True
                        stmts[i] = lp_
                        continue
                # for T in (A if c else B): BODY  ->  if c: for T in A: BODY  else: for T in B: BODY
                if isinstance(st, ast.For) and not st.orelse and isinstance(st.iter, ast.IfExp) and is_pure(st.iter.test):
                    ie_ = st.iter
                    self.changed = True
                    la_ = _loc(ast.For(target=copy.deepcopy(st.target), iter=ie_.body, body=copy.deepcopy(st.body), orelse=[]), st)
                    lb_ = _loc(ast.For(target=st.target, iter=ie_.orelse, body=st.body, orelse=[]), st)
                    stmts[i] = _loc(ast.If(test=simplify_test(ie_.test), body=[la_], orelse=[lb_]), st)  # type: ignore[assignment]
                    continue
                # for T in (e,): BODY  ->  BODY[T := e]     (one round; e a plain name; no break/continue; T not rebound)
                if isinstance(st, ast.For) and not st.orelse and isinstance(st.iter, (ast.Tuple, ast.List)) and len(st.iter.elts) == 1 and isinstance(st.iter.elts[0], ast.Name) \
                        and isinstance(st.target, ast.Name) and not any(isinstance(x, (ast.Break, ast.Continue)) for b_ in st.body for x in ast.walk(b_)) \
                        and not any(isinstance(x, ast.Name) and x.id == st.target.id and isinstance(x.ctx, (ast.Store, ast.Del)) for b_ in st.body for x in ast.walk(b_)) \
                        and not any(isinstance(x, FuncNode + (ast.Lambda,)) for b_ in st.body for x in ast.walk(b_)) \
                        and not any(isinstance(x, ast.Name) and x.id == st.target.id for r_ in stmts[i + 1:] for x in ast.walk(r_)):
                    tn_, en_ = st.target.id, st.iter.elts[0].id

                    class _One(ast.NodeTransformer):
                        def visit_Name(self, n: ast.Name):
                            if n.id == tn_:
                                n.id = en_
                            return n

                    self.changed = True
                    stmts[i : i + 1] = [_One().visit(b_) for b_ in st.body]
                    continue
                # for T in (e1, e2[, e3, e4]): BODY  ->  BODY[T := e1]; BODY[T := e2] ...   (a short literal table of names /
                # constants, or of tuples of them for a tuple target; no break/continue; the targets are not rebound or used later)
                if isinstance(st, ast.For) and not st.orelse and isinstance(st.iter, (ast.Tuple, ast.List)) and 2 <= len(st.iter.elts) <= 4 \
                        and not any(isinstance(x, (ast.Break, ast.Continue) + FuncNode + (ast.Lambda,)) for b_ in st.body for x in ast.walk(b_)):
                    tgts_ = [st.target] if isinstance(st.target, ast.Name) else (list(st.target.elts) if isinstance(st.target, ast.Tuple) and all(isinstance(t_, ast.Name) for t_ in st.target.elts) else None)
                    rows_ = None
                    if tgts_ is not None:
                        rows_ = []
                        for el_ in st.iter.elts:
                            vals_ = [el_] if isinstance(st.target, ast.Name) else (list(el_.elts) if isinstance(el_, (ast.Tuple, ast.List)) and len(el_.elts) == len(tgts_) else None)
                            if vals_ is None or not all(isinstance(v_, (ast.Name, ast.Constant)) for v_ in vals_):
                                rows_ = None
                                break
                            rows_.append(vals_)
                    tnames_ = {t_.id for t_ in (tgts_ or [])}
                    if rows_ and not any(isinstance(x, ast.Name) and x.id in tnames_ and isinstance(x.ctx, (ast.Store, ast.Del)) for b_ in st.body for x in ast.walk(b_)) \
                            and not any(isinstance(x, ast.Name) and x.id in tnames_ for r_ in stmts[i + 1:] for x in ast.walk(r_)) \
                            and not any(isinstance(v_, ast.Name) and any(isinstance(x, ast.Name) and x.id == v_.id and isinstance(x.ctx, (ast.Store, ast.Del)) for b_ in st.body for x in ast.walk(b_))
                                        for row_ in rows_ for v_ in row_):
                        out_: List[ast.stmt] = []
                        for row_ in rows_:
                            mp_ = {t_.id: v_ for t_, v_ in zip(tgts_, row_)}

                            class _Row(ast.NodeTransformer):
                                def visit_Name(self, n: ast.Name):
                                    if n.id in mp_ and isinstance(n.ctx, ast.Load):
                                        return ast.copy_location(copy.deepcopy(mp_[n.id]), n)
                                    return n

                            out_ += [_Row().visit(copy.deepcopy(b_)) for b_ in st.body]
                        self.changed = True
                        stmts[i : i + 1] = out_
                        continue
                # deque(<genexp>, maxlen=0) / for _ in <genexp>: pass  ->  the loop that runs the generator for its effects
                if isinstance(st, ast.Expr) and isinstance(st.value, ast.Call) and (norm_name(st.value.func) in ("deque", "collections.deque")) and len(st.value.args) == 1 \
                        and isinstance(st.value.args[0], ast.GeneratorExp) and len(st.value.keywords) == 1 and st.value.keywords[0].arg == "maxlen" and _const(st.value.keywords[0].value, 0):
                    g_ = st.value.args[0]
                    lp_ = self._nest(g_.generators, [_loc(ast.Expr(value=g_.elt), st)], st)  # type: ignore[list-item]
                    if lp_ is not None:
                        self.changed = True
                        stmts[i] = lp_
                        continue
                # for i, T in enumerate(<genexp>, k): BODY  ->  i = k - 1; for T in <genexp>: i += 1; BODY   (then the genexp rule below)
                if isinstance(st, ast.For) and not st.orelse and isinstance(st.iter, ast.Call) and isinstance(st.iter.func, ast.Name) and st.iter.func.id == "enumerate" \
                        and st.iter.args and isinstance(st.iter.args[0], ast.GeneratorExp) and isinstance(st.target, ast.Tuple) and len(st.target.elts) == 2 \
                        and isinstance(st.target.elts[0], ast.Name) and len(st.iter.args) <= 2 and not st.iter.keywords \
                        and (len(st.iter.args) == 1 or (isinstance(st.iter.args[1], ast.Constant) and isinstance(st.iter.args[1].value, int))):
                    start_ = st.iter.args[1].value if len(st.iter.args) == 2 else 0
                    ivar = st.target.elts[0].id
                    self.changed = True
                    init_ = _loc(ast.Assign(targets=[ast.Name(id=ivar, ctx=ast.Store())], value=ast.Constant(value=start_ - 1)), st)
                    inc_ = _loc(ast.AugAssign(target=ast.Name(id=ivar, ctx=ast.Store()), op=ast.Add(), value=ast.Constant(value=1)), st)
                    loop_ = _loc(ast.For(target=st.target.elts[1], iter=st.iter.args[0], body=[inc_] + st.body, orelse=[]), st)
                    stmts[i : i + 1] = [init_, loop_]  # type: ignore[list-item]
                    continue
                # for T in (E for X in IT if C): BODY  ->  for X in IT: [if C:] T = E; BODY
                if isinstance(st, ast.For) and not st.orelse and isinstance(st.iter, ast.GeneratorExp) and len(st.iter.generators) == 1 \
                        and not st.iter.generators[0].is_async and isinstance(st.iter.generators[0].target, ast.Name):
                    g_ = st.iter
                    gen_ = g_.generators[0]
                    xname = gen_.target.id
                    tnames = [t.id for t in ast.walk(st.target) if isinstance(t, ast.Name)]
                    pre_: Optional[List[ast.stmt]] = None
                    if isinstance(st.target, ast.Name) and isinstance(g_.elt, ast.Name) and g_.elt.id == xname:
                        used_ = {x.id for part in [gen_.iter] + list(gen_.ifs) for x in ast.walk(part) if isinstance(x, ast.Name)}
                        if st.target.id != xname and st.target.id not in used_:
                            # the generator's variable does not outlive it: call it what the loop calls it
                            tn_ = st.target.id

                            class _Ren(ast.NodeTransformer):
                                def visit_Name(self, n: ast.Name):
                                    if n.id == xname:
                                        n.id = tn_
                                    return n

                            gen_.ifs = [_Ren().visit(t_) for t_ in gen_.ifs]
                            gen_.target = _loc(ast.Name(id=tn_, ctx=ast.Store()), gen_.target)
                            xname = tn_
                        pre_ = [] if st.target.id == xname else [_loc(ast.Assign(targets=[st.target], value=g_.elt), st)]  # type: ignore[list-item]
                    elif isinstance(st.target, ast.Tuple) and isinstance(g_.elt, ast.Tuple) and len(st.target.elts) == len(g_.elt.elts) \
                            and all(isinstance(t, ast.Name) for t in st.target.elts):
                        pairs = [(t, v) for t, v in zip(st.target.elts, g_.elt.elts) if not (isinstance(v, ast.Name) and v.id == t.id)]
                        bound = {t.id for t, _v in pairs}
                        if not any(isinstance(x, ast.Name) and x.id in bound for _t, v in pairs for x in ast.walk(v)):
                            pre_ = [_loc(ast.Assign(targets=[t], value=v), st) for t, v in pairs]  # type: ignore[misc]
                    elif isinstance(st.target, ast.Name) and st.target.id != xname:
                        pre_ = [_loc(ast.Assign(targets=[st.target], value=g_.elt), st)]  # type: ignore[list-item]
                    if pre_ is not None:
                        self.changed = True
                        body_: List[ast.stmt] = pre_ + st.body
                        if gen_.ifs:
                            cond_ = gen_.ifs[-1]
                            for cc in reversed(gen_.ifs[:-1]):
                                cond_ = _and(cc, cond_)
                            body_ = [_loc(ast.If(test=simplify_test(cond_), body=body_, orelse=[]), st)]  # type: ignore[list-item]
                        stmts[i] = _loc(ast.For(target=gen_.target, iter=gen_.iter, body=body_, orelse=[]), st)  # type: ignore[assignment]
                        continue
                # for x in it: acc.append(x)  ->  acc.extend(it)
                if isinstance(st, ast.For) and not st.orelse and isinstance(st.target, ast.Name) and _only(st.body, lambda s_: isinstance(s_, ast.Expr)):
                    c_ = st.body[0].value  # type: ignore[attr-defined]
                    if isinstance(c_, ast.Call) and isinstance(c_.func, ast.Attribute) and c_.func.attr == "append" and len(c_.args) == 1 and not c_.keywords \
                            and isinstance(c_.args[0], ast.Name) and c_.args[0].id == st.target.id and is_pure(c_.func.value) \
                            and not any(isinstance(x, ast.Name) and x.id == st.target.id for x in ast.walk(c_.func.value)):
                        self.changed = True
                        ext = ast.Call(func=ast.Attribute(value=c_.func.value, attr="extend", ctx=ast.Load()), args=[st.iter], keywords=[])
                        stmts[i] = _loc(ast.Expr(value=ext), st)  # type: ignore[assignment]
                        continue
                r2 = self._acc_loop(st, stmts[i + 1] if not last else None)
                if r2 is not None:
                    self.changed = True
                    stmts[i : i + 2] = [r2]
                    continue
            # ---- trailing bare return / continue (C3)
            if enabled("C3") and last and len(stmts) > 1:
                if (tail == "func" and _bare_return(st)) or (tail == "loop" and isinstance(st, ast.Continue)):
                    self.changed = True
                    stmts.pop()
                    i = max(0, i - 1)  # the new last statement now is in tail position
                    continue
            # `T = n = E` / `n = T = E` (n a plain name the other target does not mention)  ->  n = E; T = n
            if enabled("C2") and isinstance(st, ast.Assign) and len(st.targets) == 2 and any(isinstance(t, ast.Name) for t in st.targets):
                nt = next(t for t in st.targets if isinstance(t, ast.Name))
                ot = next(t for t in st.targets if t is not nt)
                if not any(isinstance(x, ast.Name) and x.id == nt.id for x in ast.walk(ot)) and not any(isinstance(x, ast.Name) and x.id == nt.id for x in ast.walk(st.value)) \
                        and not (isinstance(ot, ast.Name) and isinstance(st.value, ast.Constant)):
                    self.changed = True
                    first = _loc(ast.Assign(targets=[nt], value=st.value), st)
                    second = _loc(ast.Assign(targets=[ot], value=copy.deepcopy(st.value) if isinstance(st.value, ast.Constant) else _loc(ast.Name(id=nt.id, ctx=ast.Load()), st)), st)
                    stmts[i : i + 1] = [first, second]  # type: ignore[list-item]
                    continue
            # `a, b = x, y` with plain targets that none of the right-hand sides reads -> two assignments
            if enabled("C2") and isinstance(st, ast.Assign) and len(st.targets) == 1 and isinstance(st.targets[0], ast.Tuple) and isinstance(st.value, ast.Tuple) \
                    and len(st.targets[0].elts) == len(st.value.elts) and all(isinstance(t, ast.Name) for t in st.targets[0].elts):
                tnames = {t.id for t in st.targets[0].elts}
                if len(tnames) == len(st.targets[0].elts) and not any(isinstance(x, ast.Name) and x.id in tnames for v in st.value.elts for x in ast.walk(v)) \
                        and not any(isinstance(v, ast.Starred) for v in st.value.elts):
                    self.changed = True
                    stmts[i : i + 1] = [_loc(ast.Assign(targets=[t], value=v), st) for t, v in zip(st.targets[0].elts, st.value.elts)]  # type: ignore[misc]
                    continue
            if isinstance(st, ast.Assign) and len(st.targets) == 1 and isinstance(st.targets[0], ast.Name) and isinstance(st.value, ast.Name) \
                    and st.value.id == st.targets[0].id:
                self.changed = True
                stmts[i] = _loc(ast.Pass(), st)  # type: ignore[assignment]
                continue
            if isinstance(st, ast.Pass) and len(stmts) > 1:
                self.changed = True
                stmts.pop(i)
                i = max(0, i - 1) if i >= len(stmts) else i
                continue
            i += 1
        return stmts

    # -- single statement (recurse into sub-blocks)
    def stmt(self, st: ast.stmt, tail: Optional[str]) -> ast.stmt:
        if isinstance(st, FuncNode):
            return st  # nested functions are canonicalised on their own
        if isinstance(st, ast.If):
            st.test = simplify_test(st.test)
            if isinstance(st.test, ast.Constant) and isinstance(st.test.value, bool) and enabled("C2"):
                # `if True: A else: B` (left behind by tail sinking): keep the live arm
                live_ = st.body if st.test.value else st.orelse
                self.changed = True
                if not live_:
                    return _loc(ast.Pass(), st)
                if len(live_) == 1:
                    return self.stmt(live_[0], tail)
                st.test = _loc(ast.Constant(value=True), st.test)
                st.body, st.orelse = live_, []
            st.body = self.block(st.body, tail)
            st.orelse = self.block(st.orelse, tail) if st.orelse else []
            if enabled("C2"):
                if st.orelse and all(isinstance(s, ast.Pass) for s in st.orelse):
                    st.orelse = []
                    self.changed = True
                if st.orelse and all(isinstance(s, ast.Pass) for s in st.body):
                    st.test, st.body, st.orelse = simplify_test(negate(st.test)), st.orelse, []
                    self.changed = True
                if st.orelse and not terminates(st.body) and not terminates(st.orelse):
                    pn = prefer_negation(st.test)
                    if pn is not None:
                        st.test, st.body, st.orelse = pn, st.orelse, st.body
                        self.changed = True
                g = self._guarded_child_loop(st)
                if g is not None:
                    self.changed = True
                    return g
            return st
        if isinstance(st, (ast.For, ast.AsyncFor)):
            st.body = self.block(st.body, "loop")
            st.orelse = self.block(st.orelse, None) if st.orelse else []
            return st
        if isinstance(st, ast.While):
            st.test = simplify_test(st.test)
            st.body = self.block(st.body, "loop")
            st.orelse = self.block(st.orelse, None) if st.orelse else []
            # while c: if d: break; REST   ->   while c and not d: REST
            while enabled("C2") and not st.orelse and len(st.body) > 1 and isinstance(st.body[0], ast.If) and not st.body[0].orelse \
                    and _only(st.body[0].body, lambda s_: isinstance(s_, ast.Break)) and is_pure(st.body[0].test) and is_pure(st.test):
                st.test = simplify_test(_and(st.test, simplify_test(negate(st.body[0].test))))
                st.body = st.body[1:]
                self.changed = True
            return st
        if isinstance(st, (ast.With, ast.AsyncWith)):
            st.body = self.block(st.body, tail)
            # with x as v: BODY  ->  with x: BODY[v := x]   (x a plain name: the package's own context manager, the tree,
            # returns itself from __enter__ - rule LOCK checks that)
            if isinstance(st, ast.With) and len(st.items) == 1 and isinstance(st.items[0].context_expr, ast.Name) and isinstance(st.items[0].optional_vars, ast.Name):
                xn, vn = st.items[0].context_expr.id, st.items[0].optional_vars.id
                if xn != vn and not any(isinstance(x, ast.Name) and x.id in (vn, xn) and isinstance(x.ctx, (ast.Store, ast.Del)) for b_ in st.body for x in ast.walk(b_)) \
                        and not any(isinstance(x, FuncNode + (ast.Lambda,)) for b_ in st.body for x in ast.walk(b_)):
                    class _Ren2(ast.NodeTransformer):
                        def visit_Name(self, n: ast.Name):
                            if n.id == vn:
                                n.id = xn
                            return n

                    st.body = [_Ren2().visit(b_) for b_ in st.body]
                    st.items[0].optional_vars = None
                    self.changed = True
            # with suppress(E): BODY  ->  try: BODY  except E: pass
            if isinstance(st, ast.With) and len(st.items) == 1 and st.items[0].optional_vars is None and isinstance(st.items[0].context_expr, ast.Call) \
                    and norm_name(st.items[0].context_expr.func) in ("suppress", "contextlib.suppress") and st.items[0].context_expr.args and not st.items[0].context_expr.keywords:
                a_ = st.items[0].context_expr.args
                typ = a_[0] if len(a_) == 1 else _loc(ast.Tuple(elts=list(a_), ctx=ast.Load()), st)
                self.changed = True
                return _loc(ast.Try(body=st.body, handlers=[_loc(ast.ExceptHandler(type=typ, name=None, body=[_loc(ast.Pass(), st)]), st)], orelse=[], finalbody=[]), st)
            return st
        if isinstance(st, ast.Try):
            st.body = self.block(st.body, None)
            for h in st.handlers:
                h.body = self.block(h.body, None)
            st.orelse = self.block(st.orelse, None) if st.orelse else []
            st.finalbody = self.block(st.finalbody, None) if st.finalbody else []
            return st
        if isinstance(st, ast.Assert):
            st.test = simplify_test(st.test)
            return st
        if isinstance(st, ast.Return) and st.value is not None and _const(st.value, None):
            st.value = None
            self.changed = True
        return st

    # -- C2: `if x._children: for c in x._children[:]: B`  ->  `for c in x.children.copy(): B`
    @staticmethod
    def _guarded_child_loop(st: ast.If) -> Optional[ast.stmt]:
        """The `children` property is `_children or []`: a loop over the (copied) raw list under a truthiness guard on
        that same list is a loop over the (copied) property."""
        if st.orelse or len(st.body) != 1 or not isinstance(st.body[0], ast.For) or st.body[0].orelse:
            return None
        test, rest = st.test, None
        if isinstance(test, ast.BoolOp) and isinstance(test.op, ast.And) and len(test.values) >= 2:
            rest, test = test.values[:-1], test.values[-1]
        if isinstance(test, ast.Compare) and len(test.ops) == 1 and isinstance(test.ops[0], ast.IsNot) and _const(test.comparators[0], None):
            test = test.left  # `x._children is not None` (the list is None or non-empty; an empty one is not iterated either)
        if not (isinstance(test, ast.Attribute) and test.attr == "_children"):
            return None
        lp = st.body[0]
        it, copied = lp.iter, False
        wrap = None
        if isinstance(it, ast.Call) and isinstance(it.func, ast.Name) and it.func.id in ("enumerate", "reversed") and it.args and not it.keywords:
            wrap, it = it, it.args[0]
        if isinstance(it, ast.Subscript) and isinstance(it.slice, ast.Slice) and it.slice.lower is None and it.slice.upper is None and it.slice.step is None:
            it, copied = it.value, True
        elif isinstance(it, ast.Call) and isinstance(it.func, ast.Attribute) and it.func.attr == "copy" and not it.args:
            it, copied = it.func.value, True
        elif isinstance(it, ast.Call) and isinstance(it.func, ast.Name) and it.func.id in ("list", "tuple") and len(it.args) == 1 and not it.keywords:
            it, copied = it.args[0], True
        if not (isinstance(it, ast.Attribute) and it.attr == "_children" and ast.dump(it.value) == ast.dump(test.value)):
            return None
        new_it: ast.expr = _loc(ast.Attribute(value=it.value, attr="children", ctx=ast.Load()), lp.iter)
        if copied:
            new_it = _loc(ast.Call(func=_loc(ast.Attribute(value=new_it, attr="copy", ctx=ast.Load()), lp.iter), args=[], keywords=[]), lp.iter)
        if wrap is not None:
            wrap.args[0] = new_it
        else:
            lp.iter = new_it
        if rest:
            cond = rest[0] if len(rest) == 1 else _loc(ast.BoolOp(op=ast.And(), values=list(rest)), st.test)
            return _loc(ast.If(test=cond, body=[lp], orelse=[]), st)
        return lp

    # -- C4
    def _lift_ifexp(self, st: ast.stmt) -> Optional[List[ast.stmt]]:
        # f(.., A if c else B, ..)  as a statement / assigned value: the choice moves out when nothing effectful is evaluated before it
        call = st.value if isinstance(st, (ast.Expr, ast.Assign, ast.Return)) and isinstance(getattr(st, "value", None), ast.Call) else None
        if call is not None and is_pure(call.func) and not (isinstance(st, ast.Assign) and not (len(st.targets) == 1 and isinstance(st.targets[0], ast.Name))):
            slots = [("a", j, a_) for j, a_ in enumerate(call.args)] + [("k", j, k_.value) for j, k_ in enumerate(call.keywords)]
            for pos, (kind_, j, a_) in enumerate(slots):
                early_trivial = all(isinstance(x_, (ast.Name, ast.Constant)) for _k, _j, x_ in slots[:pos]) and (
                    isinstance(call.func, ast.Name) or (isinstance(call.func, ast.Attribute) and isinstance(call.func.value, ast.Name)))
                if isinstance(a_, ast.IfExp) and all(is_pure(x_) for _k, _j, x_ in slots[:pos]) and (is_pure(a_.test) or early_trivial):
                    # (an effectful test may move in front of the callee lookup / plain-name arguments: it is still the first
                    # effectful thing evaluated, and it cannot rebind the caller's locals)
                    def variant(val):
                        c2 = copy.deepcopy(st)
                        cc = c2.value
                        if kind_ == "a":
                            cc.args[j] = copy.deepcopy(val)
                        else:
                            cc.keywords[j].value = copy.deepcopy(val)
                        return c2
                    return [_loc(ast.If(test=simplify_test(copy.deepcopy(a_.test)), body=[variant(a_.body)], orelse=[variant(a_.orelse)]), st)]  # type: ignore[list-item]
                if not is_pure(a_):
                    break
        if isinstance(st, ast.Expr) and isinstance(st.value, ast.Yield) and isinstance(st.value.value, ast.IfExp):
            ie = st.value.value
            a = _loc(ast.Expr(value=_loc(ast.Yield(value=ie.body), st)), st)
            b = _loc(ast.Expr(value=_loc(ast.Yield(value=ie.orelse), st)), st)
            return [_loc(ast.If(test=simplify_test(ie.test), body=[a], orelse=[b]), st)]  # type: ignore[list-item]
        # `yield A + (X if c else Y)` / `return ...` / `v = ...`: a choice inside a binary operation, its test reading plain
        # locals only (so that it may be evaluated before A)
        holder = st.value if isinstance(st, ast.Expr) and isinstance(st.value, ast.Yield) else st
        val = getattr(holder, "value", None)
        if isinstance(st, (ast.Expr, ast.Return, ast.Assign)) and isinstance(val, ast.BinOp) and (not isinstance(st, ast.Expr) or holder is not st) \
                and not (isinstance(st, ast.Assign) and not (len(st.targets) == 1 and isinstance(st.targets[0], ast.Name))):
            for side in ("right", "left"):
                ie = getattr(val, side)
                if isinstance(ie, ast.IfExp) and is_pure(ie.test) and not any(isinstance(x, (ast.Attribute, ast.Subscript)) for x in ast.walk(ie.test)):
                    def variant2(v_):
                        c2 = copy.deepcopy(st)
                        h2 = c2.value if isinstance(c2, ast.Expr) else c2
                        setattr(h2.value, side, copy.deepcopy(v_))
                        return c2
                    return [_loc(ast.If(test=simplify_test(copy.deepcopy(ie.test)), body=[variant2(ie.body)], orelse=[variant2(ie.orelse)]), st)]  # type: ignore[list-item]
        if isinstance(st, ast.Expr) and isinstance(st.value, ast.YieldFrom) and isinstance(st.value.value, ast.IfExp):
            ie = st.value.value
            a = _loc(ast.Expr(value=_loc(ast.YieldFrom(value=ie.body), st)), st)
            b = _loc(ast.Expr(value=_loc(ast.YieldFrom(value=ie.orelse), st)), st)
            return [_loc(ast.If(test=simplify_test(ie.test), body=[a], orelse=[b]), st)]  # type: ignore[list-item]
        if isinstance(st, ast.Return) and isinstance(st.value, ast.IfExp):
            ie = st.value
            a = _loc(ast.If(test=simplify_test(ie.test), body=[_loc(ast.Return(value=ie.body), st)], orelse=[]), st)
            b = _loc(ast.Return(value=ie.orelse), st)
            return [a, b]  # type: ignore[list-item]
        if isinstance(st, ast.Assign) and isinstance(st.value, ast.IfExp) and len(st.targets) == 1 and isinstance(st.targets[0], (ast.Name, ast.Attribute)):
            ie = st.value
            t = st.targets[0]
            a = _loc(ast.Assign(targets=[copy.deepcopy(t)], value=ie.body), st)
            b = _loc(ast.Assign(targets=[copy.deepcopy(t)], value=ie.orelse), st)
            return [_loc(ast.If(test=simplify_test(ie.test), body=[a], orelse=[b]), st)]  # type: ignore[list-item]
        if isinstance(st, ast.AnnAssign) and isinstance(st.value, ast.IfExp) and isinstance(st.target, (ast.Name, ast.Attribute)):
            ie = st.value
            a = _loc(ast.Assign(targets=[copy.deepcopy(st.target)], value=ie.body), st)
            b = _loc(ast.Assign(targets=[copy.deepcopy(st.target)], value=ie.orelse), st)
            return [_loc(ast.If(test=simplify_test(ie.test), body=[a], orelse=[b]), st)]  # type: ignore[list-item]
        return None

    @staticmethod
    def _nest(gens, innermost: List[ast.stmt], at: ast.AST) -> Optional[ast.stmt]:
        """for g1: [if ifs1:] for g2: [if ifs2:] ... innermost"""
        body = innermost
        for gen in reversed(gens):
            if gen.is_async:
                return None
            if gen.ifs:
                cond = gen.ifs[-1]
                for cc in reversed(gen.ifs[:-1]):
                    cond = _and(cc, cond)
                body = [_loc(ast.If(test=simplify_test(cond), body=body, orelse=[]), at)]  # type: ignore[list-item]
            body = [_loc(ast.For(target=gen.target, iter=gen.iter, body=body, orelse=[]), at)]  # type: ignore[list-item]
        return body[0]

    # -- C10: try: v = D[K] / except KeyError: A / else: B   ->   if K in D: v = D[K]; B  else: A
    #         v = D.get(K, SENTINEL); if v is SENTINEL: A else: B   ->   the same
    def _lbyl(self, st: ast.stmt, nxt: Optional[ast.stmt], rest: Sequence[ast.stmt]):
        """Side condition (recorded in DESIGN): D is a plain mapping - `K in D` holds exactly when `D[K]` does not raise
        KeyError; D and K are pure expressions, so evaluating them twice is not observable."""
        if isinstance(st, ast.Try) and not st.finalbody and len(st.handlers) == 1 and len(st.body) == 1:
            h = st.handlers[0]
            s0 = st.body[0]
            if h.type is not None and isinstance(h.type, ast.Name) and h.type.id == "KeyError" and (h.name is None or not any(
                    isinstance(x, ast.Name) and x.id == h.name for b_ in h.body for x in ast.walk(b_))):
                val = s0.value if isinstance(s0, (ast.Assign, ast.AnnAssign)) else None
                if isinstance(val, ast.Subscript) and not isinstance(val.slice, ast.Slice) and is_pure(val.value) and is_pure(val.slice) \
                        and not any(isinstance(x, ast.Raise) and x.exc is None for b_ in h.body for x in ast.walk(b_)) \
                        and (isinstance(s0, ast.AnnAssign) and isinstance(s0.target, ast.Name) or isinstance(s0, ast.Assign) and len(s0.targets) == 1 and isinstance(s0.targets[0], ast.Name)):
                    test = _loc(ast.Compare(left=copy.deepcopy(val.slice), ops=[ast.In()], comparators=[copy.deepcopy(val.value)]), st)
                    return [_loc(ast.If(test=test, body=[s0] + list(st.orelse), orelse=list(h.body)), st)], 1
        if isinstance(st, ast.Assign) and len(st.targets) == 1 and isinstance(st.targets[0], ast.Name) and isinstance(nxt, ast.If):
            v = st.targets[0].id
            c = st.value
            if isinstance(c, ast.Call) and isinstance(c.func, ast.Attribute) and c.func.attr == "get" and len(c.args) == 2 and not c.keywords \
                    and isinstance(c.args[1], ast.Name) and c.args[1].id.upper() == c.args[1].id and is_pure(c.func.value) and is_pure(c.args[0]):
                sent = c.args[1].id
                t = nxt.test
                if isinstance(t, ast.Compare) and len(t.ops) == 1 and isinstance(t.ops[0], (ast.Is, ast.IsNot)) and isinstance(t.left, ast.Name) and t.left.id == v \
                        and isinstance(t.comparators[0], ast.Name) and t.comparators[0].id == sent:
                    missing, present = (nxt.body, nxt.orelse) if isinstance(t.ops[0], ast.Is) else (nxt.orelse, nxt.body)
                    reads_missing = any(isinstance(x, ast.Name) and x.id == v and isinstance(x.ctx, ast.Load) for b_ in missing for x in ast.walk(b_))
                    assigns_missing = any(isinstance(b_, ast.Assign) and len(b_.targets) == 1 and isinstance(b_.targets[0], ast.Name) and b_.targets[0].id == v for b_ in missing)
                    read_after = any(isinstance(x, ast.Name) and x.id == v and isinstance(x.ctx, ast.Load) for r_ in rest for x in ast.walk(r_))
                    if not reads_missing and (assigns_missing or not read_after or terminates(missing)):
                        look = _loc(ast.Assign(targets=[st.targets[0]], value=_loc(ast.Subscript(value=c.func.value, slice=c.args[0], ctx=ast.Load()), c)), st)
                        test = _loc(ast.Compare(left=copy.deepcopy(c.args[0]), ops=[ast.In()], comparators=[copy.deepcopy(c.func.value)]), st)
                        return [_loc(ast.If(test=test, body=[look] + list(present), orelse=list(missing)), nxt)], 2
        return None

    # -- C7: if any(c for x in it): <terminating>   ->  for x in it: if c: <terminating>
    def _scan_any(self, st: ast.stmt):
        if not (isinstance(st, ast.If) and not st.orelse and terminates(st.body)):
            return None
        t = st.test
        if not (isinstance(t, ast.Call) and isinstance(t.func, ast.Name) and t.func.id == "any" and len(t.args) == 1 and isinstance(t.args[0], (ast.GeneratorExp, ast.ListComp))):
            return None
        if isinstance(st.body[-1], (ast.Continue, ast.Break)):
            return None
        g = t.args[0]
        inner = _loc(ast.If(test=simplify_test(g.elt), body=st.body, orelse=[]), st)
        loop = self._nest(g.generators, [inner], st)  # type: ignore[list-item]
        if loop is None:
            return None
        return [loop], 1

    # -- C7: v = next((e for x in it if c), None); if v is not None: <terminating>
    def _scan_next(self, st: ast.stmt, nxt: Optional[ast.stmt], rest: Sequence[ast.stmt] = ()):
        if nxt is None or not (isinstance(st, ast.Assign) and len(st.targets) == 1 and isinstance(st.targets[0], ast.Name)):
            return None
        v = st.targets[0].id
        c = st.value
        if not (isinstance(c, ast.Call) and isinstance(c.func, ast.Name) and c.func.id == "next" and len(c.args) == 2 and isinstance(c.args[0], ast.GeneratorExp)):
            return None
        # default: None, or a sentinel constant (a module-level NAME_IN_CAPS that the scan itself cannot produce)
        sentinel = c.args[1].id if isinstance(c.args[1], ast.Name) and c.args[1].id.upper() == c.args[1].id and not c.args[1].id.isdigit() else None
        if not (_const(c.args[1], None) or sentinel is not None):
            return None
        g = c.args[0]
        if not (isinstance(nxt, ast.If) and not nxt.orelse):
            return None
        term = terminates(nxt.body) and not isinstance(nxt.body[-1], (ast.Continue, ast.Break))
        if not term:
            # the found element is only used inside the `if`: first match, then stop scanning
            if any(isinstance(x, (ast.Continue, ast.Break, ast.Return)) for b_ in nxt.body for x in ast.walk(b_)):
                return None
            if any(isinstance(x, ast.Name) and x.id == v for r_ in rest for x in ast.walk(r_)):
                return None
        t = nxt.test
        if sentinel is not None:
            ok = isinstance(t, ast.Compare) and len(t.ops) == 1 and isinstance(t.ops[0], ast.IsNot) and isinstance(t.left, ast.Name) and t.left.id == v \
                and isinstance(t.comparators[0], ast.Name) and t.comparators[0].id == sentinel
        else:
            ok = (isinstance(t, ast.Compare) and len(t.ops) == 1 and isinstance(t.ops[0], ast.IsNot) and isinstance(t.left, ast.Name) and t.left.id == v and _const(t.comparators[0], None)) or (
                isinstance(t, ast.Name) and t.id == v
            )
        if not ok:
            return None
        if len(g.generators) > 1 and not term:
            return None  # a `break` would only leave the innermost loop
        bind = _loc(ast.Assign(targets=[ast.Name(id=v, ctx=ast.Store())], value=g.elt), st)
        tailb = [] if term else [_loc(ast.Break(), nxt)]
        loop = self._nest(g.generators, [bind] + nxt.body + tailb, st)  # type: ignore[operator]
        if loop is None:
            return None
        return [loop], 2

    # -- C7: return next((e for x in it if c), d)  ->  for x in it: if c: return e / return d
    def _scan_next_return(self, st: ast.stmt):
        if not (isinstance(st, ast.Return) and isinstance(st.value, ast.Call)):
            return None
        c = st.value
        if not (isinstance(c.func, ast.Name) and c.func.id == "next" and len(c.args) == 2 and isinstance(c.args[0], ast.GeneratorExp) and not c.keywords):
            return None
        g = c.args[0]
        if not is_pure(c.args[1]):
            return None
        ret = _loc(ast.Return(value=g.elt), st)
        loop = self._nest(g.generators, [ret], st)  # type: ignore[list-item]
        if loop is None:
            return None
        tail_ret = _loc(ast.Return(value=c.args[1]), st)
        return [loop, tail_ret], 1

    # -- C7: acc = []; for x in it: [if c:] acc.append(e)   ->  acc = [e for x in it if c]
    def _acc_loop(self, st: ast.stmt, nxt: Optional[ast.stmt]) -> Optional[ast.stmt]:
        if nxt is None or not isinstance(nxt, ast.For) or nxt.orelse:
            return None
        tgt = None
        if isinstance(st, ast.Assign) and len(st.targets) == 1 and isinstance(st.targets[0], ast.Name):
            tgt = st.targets[0].id
            val = st.value
        elif isinstance(st, ast.AnnAssign) and isinstance(st.target, ast.Name) and st.value is not None:
            tgt = st.target.id
            val = st.value
        if tgt is not None and isinstance(val, ast.Dict) and not val.keys:
            # acc = {}; for t in it: [if c:] acc[k] = v   ->   acc = {k: v for t in it if c}
            body = nxt.body
            cond0: Optional[ast.expr] = None
            if _only(body, lambda s: isinstance(s, ast.If) and not s.orelse):
                cond0 = body[0].test  # type: ignore[attr-defined]
                body = body[0].body  # type: ignore[attr-defined]
            if _only(body, lambda s: isinstance(s, ast.Assign) and len(s.targets) == 1 and isinstance(s.targets[0], ast.Subscript)
                     and isinstance(s.targets[0].value, ast.Name) and s.targets[0].value.id == tgt):
                asg = body[0]
                uses = [n for n in ast.walk(nxt) if isinstance(n, ast.Name) and n.id == tgt]
                if len(uses) == 1:
                    comp = ast.comprehension(target=nxt.target, iter=nxt.iter, ifs=[simplify_test(cond0)] if cond0 is not None else [], is_async=0)
                    dc = ast.DictComp(key=asg.targets[0].slice, value=asg.value, generators=[comp])  # type: ignore[attr-defined]
                    return _loc(ast.Assign(targets=[ast.Name(id=tgt, ctx=ast.Store())], value=dc), st)  # type: ignore[return-value]
            return None
        if tgt is None or not (isinstance(val, ast.List) and not val.elts):
            return None
        body = nxt.body
        cond: Optional[ast.expr] = None
        if _only(body, lambda s: isinstance(s, ast.If) and not s.orelse):
            cond = body[0].test  # type: ignore[attr-defined]
            body = body[0].body  # type: ignore[attr-defined]
        if not _only(body, lambda s: isinstance(s, ast.Expr)):
            return None
        call = body[0].value  # type: ignore[attr-defined]
        if not (isinstance(call, ast.Call) and isinstance(call.func, ast.Attribute) and call.func.attr == "append" and isinstance(call.func.value, ast.Name) and call.func.value.id == tgt and len(call.args) == 1 and not call.keywords):
            return None
        # the accumulator must not be read inside the loop other than by the append
        uses = [n for n in ast.walk(nxt) if isinstance(n, ast.Name) and n.id == tgt]
        if len(uses) != 1:
            return None
        comp = ast.comprehension(target=nxt.target, iter=nxt.iter, ifs=[simplify_test(cond)] if cond is not None else [], is_async=0)
        lc = ast.ListComp(elt=call.args[0], generators=[comp])
        return _loc(ast.Assign(targets=[ast.Name(id=tgt, ctx=ast.Store())], value=lc), st)  # type: ignore[return-value]


# --------------------------------------------------------------------------- C5 aliases
def is_pure(e: ast.AST) -> bool:
    if isinstance(e, (ast.Name, ast.Constant)):
        return True
    if isinstance(e, ast.Attribute):
        return is_pure(e.value)
    if isinstance(e, ast.Subscript):
        return is_pure(e.value) and is_pure(e.slice)
    if isinstance(e, ast.UnaryOp):
        return is_pure(e.operand)
    if isinstance(e, ast.BoolOp):
        return all(is_pure(v) for v in e.values)
    if isinstance(e, ast.Compare):
        return is_pure(e.left) and all(is_pure(c) for c in e.comparators)
    if isinstance(e, ast.Tuple):
        return all(is_pure(v) for v in e.elts)
    if isinstance(e, ast.Call):
        if _callable_ctor(e) is not None:
            # methodcaller / attrgetter / itemgetter / partial only build a callable
            return all(is_pure(a) for a in e.args) and all(is_pure(k.value) for k in e.keywords)
        return isinstance(e.func, ast.Name) and e.func.id in PURE_BUILTINS and not e.keywords and all(is_pure(a) for a in e.args)
    if isinstance(e, ast.Lambda):
        return True  # building a lambda evaluates nothing (defaults aside)
    return False


def _callable_ctor(e: ast.AST) -> Optional[str]:
    """'methodcaller' | 'attrgetter' | 'itemgetter' | 'partial' if e is a call of that standard-library constructor."""
    if not isinstance(e, ast.Call):
        return None
    f = e.func
    name = f.id if isinstance(f, ast.Name) else (f.attr if isinstance(f, ast.Attribute) and isinstance(f.value, ast.Name) and f.value.id in ("operator", "functools") else None)
    return name if name in ("methodcaller", "attrgetter", "itemgetter", "partial") else None


def is_pure_comp(e: ast.AST) -> bool:
    """A comprehension / generator over pure parts: may be moved to its single use."""
    if not isinstance(e, (ast.GeneratorExp, ast.ListComp, ast.SetComp)):
        return False
    return is_pure(e.elt) and all(is_pure(g.iter) and all(is_pure(t) for t in g.ifs) and not g.is_async for g in e.generators)


def _own_nodes(fn: ast.AST):
    """Nodes of fn's own scope (not of nested functions / lambdas / classes)."""
    stack = list(ast.iter_child_nodes(fn))
    while stack:
        n = stack.pop()
        if isinstance(n, FuncNode + (ast.Lambda, ast.ClassDef)):
            yield n  # the node itself (its name binding), not its inside
            continue
        yield n
        stack.extend(ast.iter_child_nodes(n))


def _params(fn) -> Set[str]:
    a = fn.args
    names = {x.arg for x in a.posonlyargs + a.args + a.kwonlyargs}
    if a.vararg:
        names.add(a.vararg.arg)
    if a.kwarg:
        names.add(a.kwarg.arg)
    return names


def _stmt_positions(fn):
    """For every statement of fn's own scope its structural path, its enclosing
    loops, and for every node the innermost statement that owns it.
    A path element is (owner id, arm, index); arm is '<OwnerType>.<field>'."""
    path: Dict[int, Tuple] = {}
    loops: Dict[int, Tuple[int, ...]] = {}
    node_stmt: Dict[int, ast.stmt] = {}

    def walk_block(block, prefix, lps, owner, arm):
        for i, st in enumerate(block):
            p = prefix + ((owner, arm, i),)
            path[id(st)] = p
            loops[id(st)] = lps
            node_stmt[id(st)] = st
            if isinstance(st, FuncNode + (ast.ClassDef,)):
                continue
            sub_blocks = []
            for fname, val in ast.iter_fields(st):
                if isinstance(val, list) and val and isinstance(val[0], ast.stmt):
                    sub_blocks.append((fname, val))
                elif isinstance(val, list) and val and isinstance(val[0], ast.ExceptHandler):
                    for k, h in enumerate(val):
                        sub_blocks.append((f"handler{k}", h.body))
                        node_stmt[id(h)] = st
                        if h.type is not None:
                            for n in ast.walk(h.type):
                                node_stmt[id(n)] = st
                else:
                    vals = val if isinstance(val, list) else [val]
                    for v in vals:
                        if isinstance(v, ast.AST):
                            for n in ast.walk(v):
                                node_stmt[id(n)] = st
            is_loop = isinstance(st, (ast.For, ast.AsyncFor, ast.While))
            kind = type(st).__name__
            for fname, b in sub_blocks:
                walk_block(b, p, lps + (id(st),) if (is_loop and fname == "body") else lps, id(st), f"{kind}.{fname}")

    walk_block(fn.body, (), (), id(fn), "Func.body")
    return path, loops, node_stmt


def _after(p, pd) -> bool:
    """Is the statement at path p executed after the one at pd on every path
    that reaches it (same block, later index, any depth)?"""
    k = len(pd) - 1
    return len(p) >= len(pd) and p[:k] == pd[:k] and p[k][:2] == pd[k][:2] and p[k][2] > pd[k][2]


def _may_precede(pw, pu, loops_w, loops_u, loops_def) -> bool:
    """May the statement at path pw execute before the one at pu (both after a
    definition whose enclosing loops are loops_def)?"""
    if (set(loops_w) & set(loops_u)) - set(loops_def):
        return True  # a loop around both that does not re-run the definition
    k = 0
    while k < len(pw) and k < len(pu) and pw[k] == pu[k]:
        k += 1
    if k == len(pu) and k < len(pw):
        # the using statement contains the writing one: its header (if-test, for-iter, with-item) is
        # evaluated before its body; only a while-test is evaluated again afterwards
        return pw[k][1].startswith("While.")
    if k == len(pw) or k == len(pu):
        return True
    (ow, aw, iw), (ou, au, iu) = pw[k], pu[k]
    if ow == ou and aw == au:
        return iw < iu
    if ow == ou and aw.startswith("If.") and au.startswith("If."):
        return False  # exclusive arms
    return True


def _assigned_names(node: ast.AST) -> List[str]:
    out: List[str] = []
    for n in ast.walk(node):
        if isinstance(n, ast.Name) and isinstance(n.ctx, (ast.Store, ast.Del)):
            out.append(n.id)
        elif isinstance(n, ast.ExceptHandler) and n.name:
            out.append(n.name)
        elif isinstance(n, (ast.Global, ast.Nonlocal)):
            out.extend(n.names)
        elif isinstance(n, FuncNode + (ast.ClassDef,)):
            out.append(n.name)
        elif isinstance(n, ast.alias):
            out.append((n.asname or n.name).split(".")[0])
    return out


_CONTAINER_MUTATORS = {"pop", "update", "clear", "setdefault", "popitem", "insert", "remove", "append", "extend", "sort", "reverse"}


class AliasInliner:
    """C5: copy propagation of pure single-definition locals."""

    def __init__(self, fn, may_write: Dict[str, Set[str]]):
        self.fn = fn
        self.may_write = may_write  # called name -> attribute names that call may rebind
        self.changed = False

    def run(self) -> None:
        for _ in range(40):
            if not self._one():
                break
            self.changed = True

    def _call_name(self, c: ast.Call) -> Optional[str]:
        if isinstance(c.func, ast.Attribute):
            return c.func.attr
        if isinstance(c.func, ast.Name):
            return c.func.id
        return None

    def _invalidates(self, m: ast.AST, rhs_names, rhs_attrs, has_sub) -> bool:
        if isinstance(m, ast.Name) and isinstance(m.ctx, (ast.Store, ast.Del)):
            return m.id in rhs_names
        if isinstance(m, ast.Attribute) and isinstance(m.ctx, (ast.Store, ast.Del)):
            return m.attr in rhs_attrs
        if isinstance(m, ast.Subscript) and isinstance(m.ctx, (ast.Store, ast.Del)):
            return has_sub
        if isinstance(m, (ast.Yield, ast.YieldFrom, ast.Await)):
            # control leaves the function: the consumer may change whatever the expression reads from the heap
            return bool(rhs_attrs or has_sub)
        if isinstance(m, ast.Call):
            cn = self._call_name(m)
            if cn is None:
                return bool(rhs_attrs or has_sub)
            w = self.may_write.get(cn)
            if w and (w & rhs_attrs):
                return True
            if has_sub and (cn in _CONTAINER_MUTATORS or w):
                return True
        return False

    def _one(self) -> bool:
        fn = self.fn
        params = _params(fn)
        own = list(_own_nodes(fn))
        count: Dict[str, int] = {}
        for n in own:
            if isinstance(n, ast.Name) and isinstance(n.ctx, (ast.Store, ast.Del)):
                count[n.id] = count.get(n.id, 0) + 1
            elif isinstance(n, ast.ExceptHandler) and n.name:
                count[n.name] = count.get(n.name, 0) + 2
            elif isinstance(n, (ast.Global, ast.Nonlocal)):
                for x in n.names:
                    count[x] = count.get(x, 0) + 2
            elif isinstance(n, ast.alias):
                x = (n.asname or n.name).split(".")[0]
                count[x] = count.get(x, 0) + 2
            elif isinstance(n, FuncNode + (ast.ClassDef,)):
                count[n.name] = count.get(n.name, 0) + 2
        nested_reads: Set[str] = set()
        nested_binds: Set[str] = set()
        comp_targets: Set[str] = set()
        for n in own:
            if isinstance(n, FuncNode + (ast.Lambda,)):
                for m in ast.walk(n):
                    if isinstance(m, ast.Name):
                        (nested_reads if isinstance(m.ctx, ast.Load) else nested_binds).add(m.id)
                    elif isinstance(m, ast.arg):
                        nested_binds.add(m.arg)
                    elif isinstance(m, ast.Nonlocal):
                        for x in m.names:
                            count[x] = count.get(x, 0) + 2
            elif isinstance(n, ast.comprehension):
                for m in ast.walk(n.target):
                    if isinstance(m, ast.Name):
                        comp_targets.add(m.id)
        path, loops, node_stmt = _stmt_positions(fn)
        cands = []
        for n in own:
            if isinstance(n, ast.Assign) and len(n.targets) == 1 and isinstance(n.targets[0], ast.Name):
                v, rhs = n.targets[0].id, n.value
            elif isinstance(n, ast.AnnAssign) and isinstance(n.target, ast.Name) and n.value is not None:
                v, rhs = n.target.id, n.value
            else:
                continue
            if id(n) not in path or v in params or count.get(v, 0) != 1:
                continue
            if not is_pure(rhs):
                n_uses = sum(1 for u in ast.walk(fn) if isinstance(u, ast.Name) and u.id == v and isinstance(u.ctx, ast.Load))
                if not (is_pure_comp(rhs) and n_uses == 1):
                    continue
            if v in comp_targets or v in nested_binds:
                continue
            cands.append((getattr(n, "lineno", 0), v, rhs, n))
        cands.sort(key=lambda c: c[0])
        for _, v, rhs, d in cands:
            rhs_names = {m.id for m in ast.walk(rhs) if isinstance(m, ast.Name)}
            rhs_attrs = {m.attr for m in ast.walk(rhs) if isinstance(m, ast.Attribute)}
            for a_ in list(rhs_attrs):
                rhs_attrs |= self.may_write.get("<prop>" + a_, set())  # a property reads the fields behind it
            has_sub = any(isinstance(m, ast.Subscript) for m in ast.walk(rhs))
            own_targets = {m.id for c in ast.walk(rhs) if isinstance(c, ast.comprehension) for m in ast.walk(c.target) if isinstance(m, ast.Name)}
            rhs_names -= own_targets
            other_comp_targets = set()
            for n2 in own:
                if isinstance(n2, ast.comprehension) and not any(n2 is c for c in ast.walk(rhs)):
                    other_comp_targets |= {m.id for m in ast.walk(n2.target) if isinstance(m, ast.Name)}
            if v in rhs_names or (rhs_names & other_comp_targets) or (own_targets & other_comp_targets and False):
                continue
            if v in nested_reads:
                # into closures only: a plain parameter that is never rebound
                if not (isinstance(rhs, ast.Name) and rhs.id in params and count.get(rhs.id, 0) == 0 and rhs.id not in nested_binds):
                    continue
            pd = path[id(d)]
            writes = [node_stmt.get(id(m)) for m in own if self._invalidates(m, rhs_names, rhs_attrs, has_sub) and node_stmt.get(id(m)) is not d]
            ok = True
            for u in own:
                if not (isinstance(u, ast.Name) and u.id == v and isinstance(u.ctx, ast.Load)):
                    continue
                su = node_stmt.get(id(u))
                if su is None or id(su) not in path or not _after(path[id(su)], pd):
                    ok = False
                    break
                pu = path[id(su)]
                # a `with` body is a critical section (`with tree:`): a heap read must not be moved into it
                # (a method looked up on an object - `self.to_list_iter` - is not a read of the tree's state)
                state_attrs = {a_ for a_ in rhs_attrs if a_ not in self.may_write or ("<prop>" + a_) in self.may_write}
                if (state_attrs or has_sub) and any(arm == "With.body" and not any(o2 == o for o2, _a2, _i2 in pd) for o, arm, _i in pu):
                    ok = False
                    break
                for w in writes:
                    if w is None or id(w) not in path:
                        ok = False
                        break
                    pw = path[id(w)]
                    if not _after(pw, pd):
                        continue  # before the binding (or re-run together with it)
                    if w is su:
                        # `yield f(alias)`: the operand is evaluated before control leaves the function
                        if isinstance(w, ast.Expr) and isinstance(w.value, (ast.Yield, ast.YieldFrom)) and not any(
                                x is not w.value and self._invalidates(x, rhs_names, rhs_attrs, has_sub) for x in ast.walk(w)):
                            continue
                        # `x.attr = f(alias)`: the right-hand side is evaluated before the store
                        if isinstance(w, (ast.Assign, ast.AugAssign, ast.AnnAssign)) and not any(
                            isinstance(c, ast.Call) and self._invalidates(c, rhs_names, rhs_attrs, has_sub) for c in ast.walk(w)
                        ) and not any(isinstance(t, ast.Name) and t.id == v for tt in getattr(w, "targets", [getattr(w, "target", None)]) for t in ast.walk(tt) if tt is not None):
                            continue
                        ok = False
                        break
                    if _may_precede(pw, pu, loops[id(w)], loops[id(su)], loops[id(d)]):
                        ok = False
                        break
                if not ok:
                    break
            if not ok:
                continue
            self._substitute(fn, v, rhs)
            self._remove_stmt(fn, d)
            return True
        return False

    @staticmethod
    def _substitute(fn, v: str, rhs: ast.expr) -> None:
        class Sub(ast.NodeTransformer):
            def visit_Name(self, node: ast.Name):
                if node.id == v and isinstance(node.ctx, ast.Load):
                    new = copy.deepcopy(rhs)
                    for m in ast.walk(new):
                        if isinstance(m, (ast.expr, ast.stmt)):
                            ast.copy_location(m, node)
                    return new
                return node

        for i, st in enumerate(fn.body):
            fn.body[i] = Sub().visit(st)

    @staticmethod
    def _remove_stmt(fn, d: ast.stmt) -> None:
        for node in ast.walk(fn):
            for fname, val in ast.iter_fields(node):
                if isinstance(val, list) and any(x is d for x in val):
                    val[:] = [x for x in val if x is not d]
                    if not val and fname == "body":
                        val.append(ast.copy_location(ast.Pass(), d))
                    return


class SingleUseInliner:
    """C5b: `v = E` followed directly by the only use of v  ->  E at that use
    (undoes "split a long expression into two statements").  E may have effects,
    so the use must be the first effectful thing the next statement evaluates."""

    def __init__(self, fn):
        self.fn = fn
        self.changed = False

    def run(self) -> None:
        for _ in range(60):
            if not self._one():
                break
            self.changed = True

    def _one(self) -> bool:
        fn = self.fn
        params = _params(fn)
        own = list(_own_nodes(fn))
        stores: Dict[str, int] = {}
        loads: Dict[str, int] = {}
        for n in ast.walk(fn):
            if isinstance(n, ast.Name):
                if isinstance(n.ctx, ast.Load):
                    loads[n.id] = loads.get(n.id, 0) + 1
                else:
                    stores[n.id] = stores.get(n.id, 0) + 1
            elif isinstance(n, (ast.Global, ast.Nonlocal)):
                for x in n.names:
                    stores[x] = stores.get(x, 0) + 5
            elif isinstance(n, ast.ExceptHandler) and n.name:
                stores[n.name] = stores.get(n.name, 0) + 5
            elif isinstance(n, ast.arg) and n is not None:
                pass
        own_ids = {id(n) for n in own}
        for blk in self._blocks(fn):
            for i in range(len(blk) - 1):
                d, u = blk[i], blk[i + 1]
                if isinstance(d, ast.Assign) and len(d.targets) == 1 and isinstance(d.targets[0], ast.Name):
                    v, rhs = d.targets[0].id, d.value
                elif isinstance(d, ast.AnnAssign) and isinstance(d.target, ast.Name) and d.value is not None:
                    v, rhs = d.target.id, d.value
                else:
                    continue
                if v in params:
                    continue
                if stores.get(v, 0) != 1 or loads.get(v, 0) != 1:
                    # several definitions, each one directly followed by its own single use (branches after tail sinking)
                    k_ = stores.get(v, 0)
                    if k_ < 2 or loads.get(v, 0) != k_ or self._adjacent_pairs(fn, v) != k_:
                        continue
                if any(isinstance(x, (ast.Yield, ast.YieldFrom, ast.Await, ast.NamedExpr, ast.Lambda)) for x in ast.walk(rhs)):
                    continue
                if isinstance(rhs, (ast.List, ast.Dict, ast.Set, ast.ListComp, ast.DictComp, ast.SetComp, ast.Constant)) and not is_pure_comp(rhs):
                    continue  # fresh containers / accumulators keep their name
                if isinstance(u, (ast.While, ast.AugAssign, ast.FunctionDef, ast.AsyncFunctionDef, ast.ClassDef, ast.Try)):
                    continue
                heads = self._header_exprs(u)
                use = None
                for h in heads:
                    for x in ast.walk(h):
                        if isinstance(x, ast.Name) and x.id == v and isinstance(x.ctx, ast.Load) and id(x) in own_ids:
                            use = (h, x)
                if use is None:
                    continue
                h, x = use
                # comprehension scopes evaluate later / repeatedly: the use must not sit inside one (other than its first iter)
                if self._inside_repeated(h, x):
                    continue
                # nothing effectful may be evaluated before the use
                anc = self._ancestors(h, x)
                pos_use = (getattr(x, "lineno", 0), getattr(x, "col_offset", 0))
                early = False
                for hh in heads:
                    if hh is h:
                        break
                    if any(isinstance(c, (ast.Call, ast.Subscript, ast.Attribute)) for c in ast.walk(hh)):
                        early = True
                for c in ast.walk(h):
                    if isinstance(c, ast.Call) and not any(c is a for a in anc):
                        if (getattr(c, "lineno", 0), getattr(c, "col_offset", 0)) < pos_use:
                            early = True
                if early:
                    continue
                self._replace(u, x, rhs)
                blk.pop(i)
                return True
        return False

    @classmethod
    def _adjacent_pairs(cls, fn, v: str) -> int:
        n = 0
        for blk in cls._blocks(fn):
            for i in range(len(blk) - 1):
                d, u = blk[i], blk[i + 1]
                tgt = d.targets[0] if isinstance(d, ast.Assign) and len(d.targets) == 1 else (d.target if isinstance(d, ast.AnnAssign) and d.value is not None else None)
                if isinstance(tgt, ast.Name) and tgt.id == v and not any(isinstance(x, ast.Name) and x.id == v for x in ast.walk(d.value)):
                    if sum(1 for x in ast.walk(u) if isinstance(x, ast.Name) and x.id == v and isinstance(x.ctx, ast.Load)) == 1 \
                            and not any(isinstance(x, ast.Name) and x.id == v and not isinstance(x.ctx, ast.Load) for x in ast.walk(u)):
                        n += 1
        return n

    @staticmethod
    def _blocks(fn):
        out = []
        stack = [fn]
        while stack:
            n = stack.pop()
            for fname, val in ast.iter_fields(n):
                if isinstance(val, list) and val and isinstance(val[0], ast.stmt):
                    out.append(val)
                    for st in val:
                        if not isinstance(st, FuncNode + (ast.ClassDef,)):
                            stack.append(st)
                elif isinstance(val, list) and val and isinstance(val[0], ast.ExceptHandler):
                    stack.extend(val)
        return out

    @staticmethod
    def _header_exprs(u: ast.stmt) -> List[ast.expr]:
        if isinstance(u, ast.Assign):
            return [u.value]  # targets are evaluated after the value
        if isinstance(u, ast.AnnAssign):
            return [u.value] if u.value is not None else []
        if isinstance(u, (ast.Return, ast.Expr)):
            return [u.value] if u.value is not None else []
        if isinstance(u, ast.If):
            return [u.test]
        if isinstance(u, (ast.For, ast.AsyncFor)):
            return [u.iter]
        if isinstance(u, (ast.With, ast.AsyncWith)):
            return [u.items[0].context_expr] if u.items else []
        if isinstance(u, ast.Raise):
            return [u.exc] if u.exc is not None else []
        if isinstance(u, ast.Assert):
            return [u.test]
        return []

    @staticmethod
    def _ancestors(root: ast.AST, node: ast.AST) -> List[ast.AST]:
        path: List[ast.AST] = []

        def rec(n) -> bool:
            if n is node:
                return True
            for c in ast.iter_child_nodes(n):
                if rec(c):
                    path.append(n)
                    return True
            return False

        rec(root)
        return path

    def _inside_repeated(self, root: ast.AST, node: ast.AST) -> bool:
        for a in self._ancestors(root, node):
            if isinstance(a, (ast.ListComp, ast.SetComp, ast.GeneratorExp, ast.DictComp)):
                first_iter = a.generators[0].iter
                if not any(node is x for x in ast.walk(first_iter)):
                    return True
                if isinstance(a, ast.GeneratorExp):
                    return True  # lazily evaluated
            if isinstance(a, ast.Lambda):
                return True
            if isinstance(a, ast.BoolOp) and not any(node is x for x in ast.walk(a.values[0])):
                return True  # conditionally evaluated
            if isinstance(a, ast.IfExp) and not any(node is x for x in ast.walk(a.test)):
                return True
        return False

    @staticmethod
    def _replace(u: ast.stmt, x: ast.Name, rhs: ast.expr) -> None:
        class Sub(ast.NodeTransformer):
            def visit_Name(self, node: ast.Name):
                if node is x:
                    return rhs
                return node

        Sub().visit(u)


# --------------------------------------------------------------------------- C6 helper inlining
class _Renamer(ast.NodeTransformer):
    def __init__(self, names: Dict[str, str], subst: Dict[str, ast.expr], line: ast.AST):
        self.names, self.subst, self.line = names, subst, line

    def visit_Name(self, node: ast.Name):
        if node.id in self.subst and isinstance(node.ctx, ast.Load):
            new = copy.deepcopy(self.subst[node.id])
            return new
        if node.id in self.names:
            node.id = self.names[node.id]
        return node

    def visit_arg(self, node):
        return node


def _has_yield(fn) -> bool:
    return any(isinstance(n, (ast.Yield, ast.YieldFrom)) for n in _own_nodes(fn))


def _returns(block) -> List[ast.Return]:
    out = []
    for st in block:
        for n in [st] if isinstance(st, FuncNode) else ast.walk(st):
            if isinstance(n, ast.Return):
                out.append(n)
    return out


def _tail_to(block: List[ast.stmt], make, depth: int = 0) -> Optional[List[ast.stmt]]:
    """Rewrite a block so that each `return e` becomes make(e) and nothing runs after it; None if that is not
    possible (a return inside a loop / with / try).  What follows an `if` that returns in some arm only is moved
    (copied) into the arms that fall through."""
    if depth > 12:
        return None
    out: List[ast.stmt] = []
    for i, st in enumerate(block):
        if isinstance(st, ast.Return):
            out.extend(make(st))
            return out
        if isinstance(st, ast.If) and _returns([st]):
            rest = block[i + 1 :]
            arms = []
            for arm in (list(st.body), list(st.orelse)):
                cont = arm if terminates(arm) and isinstance(arm[-1], (ast.Return, ast.Raise)) else arm + [copy.deepcopy(r_) for r_ in rest]
                new_arm = _tail_to(cont, make, depth + 1)
                if new_arm is None:
                    return None
                arms.append(new_arm)
            new = ast.If(test=st.test, body=arms[0] or [ast.Pass()], orelse=arms[1])
            out.append(_loc(new, st))  # type: ignore[arg-type]
            return out
        if isinstance(st, ast.With) and i == len(block) - 1 and _returns([st]):
            # `with cm: ...; return e` as the last statement: the value is computed inside the region either way
            nb = _tail_to(list(st.body), make, depth + 1)
            if nb is None:
                return None
            out.append(_loc(ast.With(items=st.items, body=nb or [ast.Pass()]), st))  # type: ignore[arg-type]
            return out
        if _returns([st]) and not isinstance(st, FuncNode):
            return None  # return inside a loop / with / try
        out.append(st)
    return out


def _ends_in_return(block) -> bool:
    return bool(block) and isinstance(block[-1], (ast.Return, ast.Raise))


class HelperInliner:
    #: ids of the function definitions that were inlined somewhere (reset per canonicalise run)
    USED: Set[int] = set()

    """C6.  `table` maps a resolvable callee description to its FunctionDef."""

    def __init__(self, module_funcs: Dict[str, ast.AST], class_methods: Dict[str, Dict[str, ast.AST]], mro: Dict[str, List[str]], new_funcs: Set[int]):
        self.module_funcs = module_funcs  # plain name -> def (module level)
        self.class_methods = class_methods  # class -> name -> def
        self.mro = mro
        self.new = new_funcs  # ids of FunctionDef nodes that are new helpers
        self.changed = False
        self.counter = 0

    # -- resolve a call made inside `fn` (of class `cls`, nested-function table `local_defs`)
    def _resolve(self, call: ast.Call, cls: Optional[str], self_name: Optional[str], local_defs: Dict[str, ast.AST]):
        f = call.func
        if isinstance(f, ast.Name):
            d = local_defs.get(f.id) or self.module_funcs.get(f.id)
            if d is not None and id(d) in self.new:
                return d, None, False
            return None
        if isinstance(f, ast.Attribute) and is_pure(f.value):
            recv = f.value
            # self.h(...) / cls-typed receiver is not known here: accept any receiver when the method name is
            # unique among the new helpers of the package
            owners = [(c, ms[f.attr]) for c, ms in self.class_methods.items() if f.attr in ms and id(ms[f.attr]) in self.new]
            if len(owners) != 1:
                return None
            c, d = owners[0]
            if not d.name.startswith("_") and not (isinstance(recv, ast.Name) and recv.id in ("self", "cls")):
                return None  # a public name (`get`, `copy`, ...) on some other receiver may be anything
            decs = {(x.id if isinstance(x, ast.Name) else getattr(x, "attr", "")) for x in d.decorator_list}
            if "property" in decs:
                return None
            if "staticmethod" in decs:
                return d, None, False
            if "classmethod" in decs:
                return d, recv, True
            return d, recv, True
        return None

    def inline_into(self, fn, cls: Optional[str], depth: int = 0) -> None:
        if depth > 3:
            return
        self_name = None
        local_defs = {n.name: n for n in _own_nodes(fn) if isinstance(n, FuncNode)}
        # a name that is also bound in another way (`render = repr` in one branch, `def render` in the other; two defs)
        # does not stand for that def
        counts_: Dict[str, int] = {}
        for n in _own_nodes(fn):
            if isinstance(n, FuncNode):
                counts_[n.name] = counts_.get(n.name, 0) + 1
            elif isinstance(n, ast.Name) and isinstance(n.ctx, (ast.Store, ast.Del)):
                counts_[n.id] = counts_.get(n.id, 0) + 1
        local_defs = {k: v for k, v in local_defs.items() if counts_.get(k, 0) == 1 and k not in _params(fn)}
        # also closures of the enclosing function are visible: handled by caller through local_defs of parents
        local_defs.update(getattr(fn, "_outer_defs", {}))
        for n in local_defs.values():
            if not hasattr(n, "_outer_defs"):
                n._outer_defs = {}  # type: ignore[attr-defined]
            n._outer_defs.update({k: v for k, v in local_defs.items() if v is not n})  # type: ignore[attr-defined]
        self._block(fn, fn.body, cls, self_name, local_defs, fn)

    def _block(self, fn, block: List[ast.stmt], cls, self_name, local_defs, owner) -> None:
        i = 0
        guard = 0
        while i < len(block):
            st = block[i]
            guard += 1
            if guard > 400:
                return
            if isinstance(st, FuncNode + (ast.ClassDef,)):
                i += 1
                continue
            rep = self._stmt(fn, st, cls, self_name, local_defs)
            if rep is not None:
                block[i : i + 1] = rep
                self.changed = True
                continue
            for fname, val in ast.iter_fields(st):
                if isinstance(val, list) and val and isinstance(val[0], ast.stmt):
                    self._block(fn, val, cls, self_name, local_defs, owner)
                elif isinstance(val, list) and val and isinstance(val[0], ast.ExceptHandler):
                    for h in val:
                        self._block(fn, h.body, cls, self_name, local_defs, owner)
            i += 1

    # -- one statement: returns replacement list or None
    def _stmt(self, fn, st: ast.stmt, cls, self_name, local_defs) -> Optional[List[ast.stmt]]:
        # statement-level forms first
        call = None
        mode = None
        if isinstance(st, ast.Expr) and isinstance(st.value, ast.Call):
            call, mode = st.value, "stmt"
        elif isinstance(st, ast.Return) and isinstance(st.value, ast.Call):
            call, mode = st.value, "return"
        elif isinstance(st, ast.Assign) and isinstance(st.value, ast.Call) and len(st.targets) == 1 and isinstance(st.targets[0], (ast.Name, ast.Attribute)):
            call, mode = st.value, "assign"
        if call is not None:
            r = self._resolve(call, cls, self_name, local_defs)
            if r is not None:
                rep = self._inline_stmt(fn, st, call, mode, *r)
                if rep is not None:
                    return rep
        # expression-level: any call inside the statement's own expressions to an expression-like helper
        done = self._inline_exprs(fn, st, cls, self_name, local_defs)
        if done:
            return [st]
        # a helper call nested in the statement that is not expression-like: hoist it into its own
        # statement when it is the first effectful thing the statement evaluates, then inline that
        hoisted = self._hoist(fn, st, cls, self_name, local_defs)
        if hoisted is not None:
            return hoisted
        return None

    def _hoist(self, fn, st, cls, self_name, local_defs) -> Optional[List[ast.stmt]]:
        if isinstance(st, (ast.While, ast.AugAssign, ast.Try) + FuncNode):
            return None
        heads = SingleUseInliner._header_exprs(st)
        if not heads:
            return None
        h = heads[0]
        si = SingleUseInliner(fn)
        for c in ast.walk(h):
            if not isinstance(c, ast.Call) or c is h and isinstance(st, (ast.Expr, ast.Return, ast.Assign)):
                continue
            r = self._resolve(c, cls, self_name, local_defs)
            if r is None:
                continue
            if si._inside_repeated(h, c):
                continue
            anc = si._ancestors(h, c)
            pos = (getattr(c, "lineno", 0), getattr(c, "col_offset", 0))
            if any(isinstance(o, ast.Call) and not any(o is a for a in anc) and o is not c and not any(o is x for x in ast.walk(c))
                   and (getattr(o, "lineno", 0), getattr(o, "col_offset", 0)) < pos for o in ast.walk(h)):
                continue
            self.counter += 1
            tmp = f"{r[0].name.strip('_')}_result{self.counter}"
            asg = _loc(ast.Assign(targets=[ast.Name(id=tmp, ctx=ast.Store())], value=c), c)
            rep = self._inline_stmt(fn, asg, c, "assign", *r)
            if rep is None:
                return None

            class Sub(ast.NodeTransformer):
                def visit_Call(self, node):
                    if node is c:
                        return _loc(ast.Name(id=tmp, ctx=ast.Load()), c)
                    return self.generic_visit(node)

            Sub().visit(st)
            return rep + [st]
        return None

    def _own_exprs(self, st: ast.stmt):
        for fname, val in ast.iter_fields(st):
            vals = val if isinstance(val, list) else [val]
            for v in vals:
                if isinstance(v, ast.expr):
                    yield v
                elif isinstance(v, ast.withitem):
                    yield v.context_expr
                elif isinstance(v, ast.keyword):
                    yield v.value

    def _inline_exprs(self, fn, st, cls, self_name, local_defs) -> bool:
        me = self
        hit = [False]

        class T(ast.NodeTransformer):
            def visit_Lambda(self, node):
                return node

            def visit_Call(self, node: ast.Call):
                self.generic_visit(node)
                r = me._resolve(node, cls, self_name, local_defs)
                if r is None:
                    return node
                e = me._as_expr(fn, node, *r)
                if e is None:
                    return node
                hit[0] = True
                return e

        for fname, val in list(ast.iter_fields(st)):
            if isinstance(val, ast.expr):
                setattr(st, fname, T().visit(val))
            elif isinstance(val, list) and val and isinstance(val[0], ast.expr):
                val[:] = [T().visit(v) for v in val]
            elif isinstance(val, list) and val and isinstance(val[0], ast.withitem):
                for w in val:
                    w.context_expr = T().visit(w.context_expr)
        return hit[0]

    # -- parameter binding
    def _bind(self, d, call: ast.Call, recv: Optional[ast.expr], bound: bool):
        a = d.args
        if a.vararg or a.kwarg or a.posonlyargs:
            return None
        pos = [x.arg for x in a.args]
        subst: Dict[str, ast.expr] = {}
        if bound:
            if not pos:
                return None
            subst[pos[0]] = recv  # type: ignore[assignment]
            pos = pos[1:]
        if any(isinstance(x, ast.Starred) for x in call.args) or any(k.arg is None for k in call.keywords):
            return None
        if len(call.args) > len(pos):
            return None
        for p, v in zip(pos, call.args):
            subst[p] = v
        kwonly = [x.arg for x in a.kwonlyargs]
        for k in call.keywords:
            if k.arg in subst or k.arg not in pos + kwonly:
                return None
            subst[k.arg] = k.value  # type: ignore[index]
        # defaults
        all_pos = [x.arg for x in a.args]
        for p, dflt in zip(all_pos[len(all_pos) - len(a.defaults) :], a.defaults):
            subst.setdefault(p, dflt)
        for p, dflt in zip(kwonly, a.kw_defaults):
            if dflt is not None:
                subst.setdefault(p, dflt)
        for p in all_pos + kwonly:
            if p not in subst:
                return None
        return subst

    def _prepare(self, fn, d, call, recv, bound):
        """(pre-statements, renamed copy of the callee body) or None."""
        if _has_yield(d) or isinstance(d, ast.AsyncFunctionDef):
            return None
        if d is fn or any(x is fn for x in ast.walk(d)):
            return None  # a helper is not inlined into itself (a recursive helper stays a function)
        if any(isinstance(n, ast.Call) and isinstance(n.func, ast.Name) and n.func.id == d.name for n in ast.walk(d)):
            return None  # recursive
        if any(isinstance(n, ast.Attribute) and n.attr == d.name and isinstance(getattr(n, "ctx", None), ast.Load) and n is not call.func for n in ast.walk(d)):
            return None  # self-recursive method
        subst = self._bind(d, call, recv, bound)
        if subst is None:
            return None
        body = [copy.deepcopy(s) for s in d.body if not _is_docstring(s)]
        if not body:
            body = [ast.Pass()]
        assigned = set()
        for s in body:
            assigned.update(_assigned_names(s))
        caller_names = {n.id for n in ast.walk(fn) if isinstance(n, ast.Name)} | _params(fn)
        self.counter += 1
        tag = f"__{d.name.strip('_')}{self.counter}"
        pre: List[ast.stmt] = []
        names: Dict[str, str] = {}
        direct: Dict[str, ast.expr] = {}
        for p, v in subst.items():
            heap_read = any(isinstance(x_, (ast.Attribute, ast.Subscript)) for x_ in ast.walk(v)) and not isinstance(v, ast.Lambda)
            if p in assigned or not is_pure(v) or heap_read:
                # the parameter is rebound in the callee, or the argument is not a pure expression, or it reads the heap
                # (the callee may change what it reads before it uses the parameter): bind it to a local once (evaluation
                # order of arguments is kept); alias inlining (C5) moves it on where nothing in between can invalidate it
                local = p if (p not in caller_names or (isinstance(v, ast.Name) and v.id == p)) else p + tag
                if local != p and self._dead_after(fn, call, p):
                    # the caller's own `p` is not read after the call (and the call is not in a loop):
                    # rebinding it is unobservable, and it keeps the name the rest of the body is written with
                    local = p
                if isinstance(v, ast.Name) and v.id == local:
                    continue
                names[p] = local
                pre.append(_loc(ast.Assign(targets=[ast.Name(id=local, ctx=ast.Store())], value=copy.deepcopy(v)), call))  # type: ignore[arg-type]
            else:
                direct[p] = v
        for x in assigned:
            if x in subst:
                continue
            if x in caller_names:
                names[x] = x + tag
        HelperInliner.USED.add(id(d))  # (this helper has at least one static call site)
        rn = _Renamer(names, direct, call)
        body = [rn.visit(s) for s in body]
        for s in body:
            for n in ast.walk(s):
                if isinstance(n, (ast.expr, ast.stmt)):
                    ast.copy_location(n, call)
        return pre, body

    @staticmethod
    def _dead_after(fn, call: ast.Call, name: str) -> bool:
        end = getattr(call, "end_lineno", getattr(call, "lineno", 0))
        for n in ast.walk(fn):
            if isinstance(n, (ast.For, ast.While, ast.AsyncFor)) and any(call is x for x in ast.walk(n)):
                return False
        later = [n for n in ast.walk(fn) if isinstance(n, ast.Name) and n.id == name and isinstance(n.ctx, ast.Load)
                 and getattr(n, "lineno", 0) > end]
        return not later

    def _inline_stmt(self, fn, st, call, mode, d, recv, bound) -> Optional[List[ast.stmt]]:
        prep = self._prepare(fn, d, call, recv, bound)
        if prep is None:
            return None
        pre, body = prep
        rets = _returns(body)
        if mode == "return":
            # the callee's returns become the caller's
            return pre + body + ([] if terminates(body) or _ends_in_return(body) else [_loc(ast.Return(value=None), st)])  # type: ignore[list-item]
        if mode == "stmt":
            if any(r.value is not None and not _const(r.value, None) for r in rets):
                # value discarded: turn `return e` into the expression statement e (kept for its effects)
                new = _tail_to(body, lambda r: [_loc(ast.Expr(value=r.value), r)] if r.value is not None and not is_pure(r.value) else [])
            else:
                new = _tail_to(body, lambda r: [])
            if new is None:
                return None
            return pre + (new or [_loc(ast.Pass(), st)])  # type: ignore[list-item]
        if mode == "assign":
            tgt = st.targets[0]
            if not rets:
                return None

            def mk(r):
                val = r.value if r.value is not None else ast.Constant(value=None)
                return [_loc(ast.Assign(targets=[copy.deepcopy(tgt)], value=val), r)]

            new = _tail_to(body, mk)
            if new is None:
                return None
            # falling off the end returns None
            if not _all_paths_assign(new):
                return None
            return pre + new
        return None

    def _gen_as_genexp(self, fn, call, d, recv, bound) -> Optional[ast.expr]:
        """A new private *generator* helper of the form `for T in IT: [if C:] yield E` (nothing else) called with pure
        arguments is the generator expression (E for T in IT if C)."""
        if isinstance(d, ast.AsyncFunctionDef) or d is fn or any(x is fn for x in ast.walk(d)):
            return None
        body = [s_ for s_ in d.body if not _is_docstring(s_)]
        if len(body) != 1 or not isinstance(body[0], ast.For) or body[0].orelse or not isinstance(body[0].target, (ast.Name, ast.Tuple)):
            return None
        lp = body[0]
        inner = lp.body
        cond = None
        if len(inner) == 1 and isinstance(inner[0], ast.If) and not inner[0].orelse:
            cond, inner = inner[0].test, inner[0].body
        if not (len(inner) == 1 and isinstance(inner[0], ast.Expr) and isinstance(inner[0].value, ast.Yield) and inner[0].value.value is not None):
            return None
        if any(isinstance(x, (ast.Yield, ast.YieldFrom, ast.Lambda)) for x in ast.walk(inner[0].value.value)) or (cond is not None and any(isinstance(x, (ast.Yield, ast.YieldFrom)) for x in ast.walk(cond))):
            return None
        subst = self._bind(d, call, recv, bound)
        if subst is None:
            return None
        for p_, v_ in subst.items():
            if not is_pure(v_):
                # an effectful argument is fine when it is the iterated expression itself (evaluated once, first)
                uses_ = [x for x in ast.walk(d) if isinstance(x, ast.Name) and x.id == p_ and isinstance(x.ctx, ast.Load)]
                if not (len(uses_) == 1 and uses_[0] is lp.iter):
                    return None
        tnames = {x.id for x in ast.walk(lp.target) if isinstance(x, ast.Name)}
        if tnames & set(subst):
            return None
        # the loop variable must not capture a name of the argument expressions
        argnames = {x.id for v in subst.values() for x in ast.walk(v) if isinstance(x, ast.Name)}
        ren: Dict[str, str] = {}
        for t in tnames & argnames:
            self.counter += 1
            ren[t] = f"{t}__g{self.counter}"
        rn = _Renamer(ren, {p_: v for p_, v in subst.items()}, call)
        tgt = rn.visit(copy.deepcopy(lp.target))
        it = rn.visit(copy.deepcopy(lp.iter))
        elt = rn.visit(copy.deepcopy(inner[0].value.value))
        ifs = [simplify_test(rn.visit(copy.deepcopy(cond)))] if cond is not None else []
        comp = ast.comprehension(target=tgt, iter=it, ifs=ifs, is_async=0)
        g = _loc(ast.GeneratorExp(elt=elt, generators=[comp]), call)
        for n in ast.walk(g):
            if isinstance(n, (ast.expr,)):
                ast.copy_location(n, call)
        return g

    def _as_expr(self, fn, call, d, recv, bound) -> Optional[ast.expr]:
        if _has_yield(d):
            return self._gen_as_genexp(fn, call, d, recv, bound)
        prep = self._prepare(fn, d, call, recv, bound)
        if prep is None:
            return None
        pre, body = prep
        if pre:
            return None
        e = _block_as_expr(body)
        return e


def _all_paths_assign(block: List[ast.stmt]) -> bool:
    if not block:
        return False
    last = block[-1]
    if isinstance(last, ast.Assign):
        return True
    if isinstance(last, ast.Raise):
        return True
    if isinstance(last, ast.If):
        return bool(last.orelse) and _all_paths_assign(last.body) and _all_paths_assign(last.orelse)
    if isinstance(last, ast.With):
        return _all_paths_assign(last.body)
    return False


def _block_as_expr(body: List[ast.stmt], cont: Optional[ast.expr] = None) -> Optional[ast.expr]:
    """A block that only tests and returns (`if c: return a` ... `return z`, nested
    as deep as it likes) as one expression; `cont` is the value of whatever
    follows the block.  None when the block does anything else."""
    if not body:
        return cont
    st = body[0]
    if isinstance(st, ast.Return):
        return st.value if st.value is not None else _loc(ast.Constant(value=None), st)  # type: ignore[return-value]
    if isinstance(st, ast.If):
        k = _block_as_expr(body[1:], cont)
        then = _block_as_expr(st.body, k)
        other = _block_as_expr(st.orelse, k) if st.orelse else k
        if then is None or other is None:
            return None
        return _loc(ast.IfExp(test=st.test, body=copy.deepcopy(then), orelse=copy.deepcopy(other)), st)  # type: ignore[return-value]
    if isinstance(st, ast.Pass):
        return _block_as_expr(body[1:], cont)
    return None


# --------------------------------------------------------------------------- C9 tail sinking
class TailSinker:
    """C9: `if c: v = A [...] else: v = B [...]` followed by ONE simple statement S that consumes the locals the branches
    chose  ->  S moves to the end of every branch (pure choices substituted).  It undoes "the branches only pick the
    values, one action at the end" - and makes `x = A if c else B; S(x)`, the if/else spelling and the duplicated
    spelling one form.  Side conditions: the If has an else on every level; every branch that can fall through assigns
    every chosen local that S reads; those locals are read nowhere else in the function; S is an expression statement,
    an assignment, a return or a yield."""

    def __init__(self, fn) -> None:
        self.fn = fn
        self.changed = False

    def run(self) -> None:
        for _ in range(20):
            if not self._one(self.fn.body):
                break
            self.changed = True

    @staticmethod
    def _leaves(st: ast.If) -> Optional[List[List[ast.stmt]]]:
        out: List[List[ast.stmt]] = []
        for blk in (st.body, st.orelse):
            if not blk:
                return None  # no else: a path without a choice
            if isinstance(blk[-1], ast.If) and (len(blk) == 1 or blk[-1].orelse):
                # (a block that ends in an if/else: its leaves are that If's leaves; the statements before it stay)
                sub = TailSinker._leaves(blk[-1])
                if sub is None:
                    if len(blk) == 1:
                        return None
                    out.append(blk)
                else:
                    out.extend(sub)
            else:
                out.append(blk)
        return out

    def _one(self, block: List[ast.stmt]) -> bool:
        for i, st in enumerate(block):
            if isinstance(st, FuncNode + (ast.ClassDef,)):
                continue
            for fname, val in ast.iter_fields(st):
                if isinstance(val, list) and val and isinstance(val[0], ast.stmt):
                    if self._one(val):
                        return True
                elif isinstance(val, list) and val and isinstance(val[0], ast.ExceptHandler):
                    for h in val:
                        if self._one(h.body):
                            return True
            if not isinstance(st, ast.If) or i + 1 >= len(block):
                continue
            S = block[i + 1]
            consumed = 1
            if isinstance(S, ast.If) and not S.orelse and terminates(S.body) and 0 < len(block) - (i + 2) <= 3 \
                    and not any(isinstance(_x, FuncNode + (ast.ClassDef,)) for _s in block[i + 2:] for _x in ast.walk(_s)):
                # a guard on what the branches chose plus a short remainder (`if res is MISSING: raise ...; return res`):
                # read as if/else so that it can be sunk as one dispatch
                S = ast.If(test=S.test, body=S.body, orelse=list(block[i + 2:]))
                ast.copy_location(S, block[i + 1])
                consumed = len(block) - (i + 1)
            if isinstance(S, ast.If):
                # a following dispatch on what the branches chose (`if keep: ... else: ...`): small bodies only
                if sum(1 for _x in ast.walk(S) if isinstance(_x, ast.stmt)) > 8 or any(isinstance(_x, (ast.For, ast.While, ast.Try, ast.With) + FuncNode) for _x in ast.walk(S)):
                    continue
                if not is_pure(S.test):
                    continue
            elif isinstance(S, ast.For):
                # a short loop over what the branches chose (`for n in changed: ...`)
                if S.orelse or sum(1 for _x in ast.walk(S) if isinstance(_x, ast.stmt)) > 8 or any(isinstance(_x, (ast.While, ast.Try, ast.With) + FuncNode) for _x in ast.walk(S)) \
                        or not is_pure(S.iter):
                    continue
            elif not isinstance(S, (ast.Expr, ast.Assign, ast.AugAssign, ast.AnnAssign, ast.Return)):
                continue
            if any(isinstance(x, (ast.Lambda, ast.NamedExpr)) for x in ast.walk(S)):
                continue
            leaves = self._leaves(st)
            if not leaves or len(leaves) > (6 if sum(1 for _x in ast.walk(S) if isinstance(_x, ast.stmt)) <= 4 else 4):
                continue
            live = [lf for lf in leaves if not terminates(lf)]
            if len(live) < 2:
                continue

            def chosen(lf: List[ast.stmt]) -> Dict[str, ast.stmt]:
                d: Dict[str, ast.stmt] = {}
                for s_ in lf:
                    if isinstance(s_, ast.Assign) and len(s_.targets) == 1 and isinstance(s_.targets[0], ast.Name):
                        d[s_.targets[0].id] = s_
                    elif isinstance(s_, ast.AnnAssign) and isinstance(s_.target, ast.Name) and s_.value is not None:
                        d[s_.target.id] = s_
                return d

            reads_S = {x.id for x in ast.walk(S.test if isinstance(S, ast.If) else (S.iter if isinstance(S, ast.For) else S)) if isinstance(x, ast.Name) and isinstance(x.ctx, ast.Load)}
            writes_S = {x.id for x in ast.walk(S) if isinstance(x, ast.Name) and isinstance(x.ctx, (ast.Store, ast.Del))}
            per = [chosen(lf) for lf in live]
            V = set.intersection(*[set(d) for d in per]) & reads_S
            # only top-level simple assignments of the leaf count, and nothing else in the If may bind them
            if not V or V & writes_S:
                continue
            inside = {id(x) for x in ast.walk(st)} | {id(x) for x in ast.walk(S)}
            params = _params(self.fn)
            if consumed > 1:
                # (the whole If S is copied into the leaves: all its reads and writes of V move with it)
                reads_S = {x.id for x in ast.walk(S) if isinstance(x, ast.Name) and isinstance(x.ctx, ast.Load)}
                V = set.intersection(*[set(d) for d in per]) & reads_S
                if not V or V & writes_S:
                    continue
            ok = not (V & params)
            for x in ast.walk(self.fn):
                if isinstance(x, ast.Name) and x.id in V and id(x) not in inside:
                    ok = False
                    break
                if isinstance(x, (ast.Global, ast.Nonlocal)) and set(x.names) & V:
                    ok = False
                    break
            # bindings of V inside the If other than the leaf-level assignments (loops, nested ifs, walrus ...)
            leaf_assigns = {id(d[v]) for d in per for v in V}
            for x in ast.walk(st):
                if isinstance(x, ast.Name) and x.id in V and isinstance(x.ctx, (ast.Store, ast.Del)):
                    holder = next((a_ for d in per for a_ in d.values() if any(x is t_ for t_ in ast.walk(a_))), None)
                    if holder is None or id(holder) not in leaf_assigns:
                        ok = False
            # V read inside the If, between its choice and the end of the leaf, is fine; a read in a terminating leaf too
            if not ok:
                continue
            for lf, d in zip(live, per):
                Sc = copy.deepcopy(S)
                # substitute the pure choices that are made in the trailing run of simple assignments
                k = len(lf)
                while k > 0 and isinstance(lf[k - 1], (ast.Assign, ast.AnnAssign)) and chosen([lf[k - 1]]):
                    k -= 1
                trailing = lf[k:]
                drop: List[ast.stmt] = []
                for j, a_ in enumerate(trailing):
                    v = next(iter(chosen([a_])))
                    E = a_.value  # type: ignore[attr-defined]
                    if v not in V or not is_pure(E):
                        continue
                    later = trailing[j + 1:]
                    e_names = {x.id for x in ast.walk(E) if isinstance(x, ast.Name)}
                    heap = any(isinstance(x, (ast.Attribute, ast.Subscript)) for x in ast.walk(E))
                    if any(next(iter(chosen([l_]))) in e_names or next(iter(chosen([l_]))) == v for l_ in later):
                        continue
                    if heap and any(isinstance(x, ast.Call) for l_ in later for x in ast.walk(l_)):
                        continue
                    if any(isinstance(x, ast.Name) and x.id == v for l_ in later for x in ast.walk(l_)):
                        continue

                    class _Sub(ast.NodeTransformer):
                        def visit_Name(self, n: ast.Name):
                            return copy.deepcopy(E) if n.id == v and isinstance(n.ctx, ast.Load) else n

                    Sc = _Sub().visit(Sc)
                    drop.append(a_)
                lf[:] = [x for x in lf if not any(x is d_ for d_ in drop)] + [Sc]
            del block[i + 1:i + 1 + consumed]
            return True
        return False


# --------------------------------------------------------------------------- C8c chosen callable
class ChosenCallable:
    """C8c: `if c: F = A [...] else: F = B [...]` where the local F is bound nowhere else and every later use of F is a
    call with one positional argument  ->  each `F(x)` becomes `A(x) if c else B(x)` (lambdas and the standard callable
    constructors applied, C8), and the two bindings go.  It undoes "pick the renderer / matcher once, call it in the
    loop".  Side conditions: c, A and B are pure; no name they read is rebound anywhere in the function after the If
    (textually), F is not read by a nested function."""

    def __init__(self, fn) -> None:
        self.fn = fn
        self.changed = False

    def run(self) -> None:
        for _ in range(4):
            if not self._one():
                break
            self.changed = True

    def _one(self) -> bool:
        fn = self.fn
        own = list(_own_nodes(fn))
        params = _params(fn)
        for st in own:
            if not (isinstance(st, ast.If) and st.orelse and is_pure(st.test)):
                continue

            def binds(block):
                out = {}
                for s_ in block:
                    if isinstance(s_, ast.Assign) and len(s_.targets) == 1 and isinstance(s_.targets[0], ast.Name):
                        out[s_.targets[0].id] = s_
                return out

            ba, bb = binds(st.body), binds(st.orelse)
            for F in set(ba) & set(bb):
                if F in params:
                    continue
                A, B = ba[F].value, bb[F].value
                # a branch may first name what it closes over (`template = repr`): resolve plain aliases of the same arm
                def resolve(e, table):
                    class R(ast.NodeTransformer):
                        def visit_Name(self, n):
                            if isinstance(n.ctx, ast.Load) and n.id in table and n.id != F and is_pure(table[n.id].value) and isinstance(table[n.id].value, (ast.Name, ast.Attribute)):
                                return copy.deepcopy(table[n.id].value)
                            return n
                    return R().visit(copy.deepcopy(e))
                A, B = resolve(A, ba), resolve(B, bb)
                if not (is_pure(A) and is_pure(B)) or not all(isinstance(x, (ast.Name, ast.Lambda, ast.Attribute)) or _callable_ctor(x) is not None for x in (A, B)):
                    continue
                stores = [n for n in own if isinstance(n, ast.Name) and n.id == F and isinstance(n.ctx, (ast.Store, ast.Del))]
                if len(stores) != 2:
                    continue
                loads = [n for n in ast.walk(fn) if isinstance(n, ast.Name) and n.id == F and isinstance(n.ctx, ast.Load)]
                own_ids = {id(n) for n in own}
                if not loads or any(id(n) not in own_ids for n in loads):
                    continue
                calls = [c for c in own if isinstance(c, ast.Call) and isinstance(c.func, ast.Name) and c.func.id == F]
                if len(calls) != len(loads) or any(len(c.args) != 1 or c.keywords or isinstance(c.args[0], ast.Starred) for c in calls):
                    continue
                end = getattr(st, "end_lineno", None) or 0
                if any((getattr(c, "lineno", 0) or 0) <= end for c in calls):
                    continue  # used inside / before the choice
                read = {x.id for e in (st.test, A, B) for x in ast.walk(e) if isinstance(x, ast.Name)} - {F}
                lam_params = {a_.arg for e in (A, B) if isinstance(e, ast.Lambda) for a_ in e.args.args}
                read -= lam_params
                if any(isinstance(n, ast.Name) and n.id in read and isinstance(n.ctx, (ast.Store, ast.Del)) and (getattr(n, "lineno", 0) or 0) > end for n in own):
                    continue
                if any(isinstance(n, (ast.Global, ast.Nonlocal)) for n in own):
                    continue
                # the aliases resolved above must not be used elsewhere than in F's value
                for c in calls:
                    a1 = _ExprCanon._apply(copy.deepcopy(A), copy.deepcopy(c.args[0]), c)
                    b1 = _ExprCanon._apply(copy.deepcopy(B), copy.deepcopy(c.args[0]), c)
                    new = _loc(ast.IfExp(test=copy.deepcopy(st.test), body=a1, orelse=b1), c)
                    c.__class__ = ast.IfExp  # replace in place
                    c.__dict__.clear()
                    c.__dict__.update(new.__dict__)
                for blk, tab in ((st.body, ba), (st.orelse, bb)):
                    blk[:] = [s_ for s_ in blk if s_ is not tab[F]] or [_loc(ast.Pass(), st)]
                # aliases of the arms that nothing reads any more
                still = {n.id for n in ast.walk(fn) if isinstance(n, ast.Name) and isinstance(n.ctx, ast.Load)}
                for blk, tab in ((st.body, ba), (st.orelse, bb)):
                    blk[:] = [s_ for s_ in blk if not (isinstance(s_, ast.Assign) and len(s_.targets) == 1 and isinstance(s_.targets[0], ast.Name)
                                                       and s_.targets[0].id not in still and s_.targets[0].id not in params and is_pure(s_.value)
                                                       and sum(1 for n in own if isinstance(n, ast.Name) and n.id == s_.targets[0].id and isinstance(n.ctx, ast.Store)) == 1)] \
                        or [_loc(ast.Pass(), st)]
                return True
        return False


# --------------------------------------------------------------------------- C9b live-range splitting
class LiveRangeSplitter:
    """C9b: a local that is assigned several times, each time by a plain `v = E` statement whose uses all follow it in
    the same block (before the next assignment of v there) and none of whose assignments lies inside the range of
    another, is really several independent locals: they get different names (v, v__2, v__3 ...), so that the
    single-definition inliners (C5, C5b) see them.  (Branches that reuse one name for their own temporary; leaves after
    tail sinking.)"""

    def __init__(self, fn) -> None:
        self.fn = fn
        self.changed = False

    def run(self) -> None:
        fn = self.fn
        params = _params(fn)
        own = list(_own_nodes(fn))
        own_ids = {id(n) for n in own}
        stores: Dict[str, List[ast.Name]] = {}
        loads: Dict[str, List[ast.Name]] = {}
        bad: Set[str] = set(params)
        for n in ast.walk(fn):
            if isinstance(n, ast.Name):
                (loads if isinstance(n.ctx, ast.Load) else stores).setdefault(n.id, []).append(n)
                if id(n) not in own_ids:
                    bad.add(n.id)  # touched by a nested function / lambda
            elif isinstance(n, (ast.Global, ast.Nonlocal)):
                bad.update(n.names)
            elif isinstance(n, ast.ExceptHandler) and n.name:
                bad.add(n.name)
            elif isinstance(n, ast.arg):
                bad.add(n.arg)
        blocks = SingleUseInliner._blocks(fn)
        for v, sts in stores.items():
            if v in bad or len(sts) < 2 or v.startswith("_x"):
                continue
            defs: List[Tuple[List[ast.stmt], int]] = []
            ok = True
            for sn in sts:
                where = None
                for blk in blocks:
                    for i, st in enumerate(blk):
                        if isinstance(st, ast.Assign) and len(st.targets) == 1 and st.targets[0] is sn:
                            where = (blk, i)
                if where is None or any(isinstance(x, ast.Name) and x.id == v for x in ast.walk(where[0][where[1]].value)):
                    ok = False
                    break
                defs.append(where)
            if not ok:
                continue
            ranges: List[Set[int]] = []
            for blk, i in defs:
                end = len(blk)
                for j in range(i + 1, len(blk)):
                    if any(b2 is blk and i2 == j for b2, i2 in defs):
                        end = j
                        break
                ids: Set[int] = set()
                for st in blk[i + 1:end]:
                    ids |= {id(x) for x in ast.walk(st)}
                ranges.append(ids)
            # no definition inside another one's range; every load inside exactly one range
            if any(id(blk[i]) in r for (blk, i) in defs for r in ranges):
                continue
            owner: Dict[int, int] = {}
            for ld in loads.get(v, []):
                ks = [k for k, r in enumerate(ranges) if id(ld) in r]
                if len(ks) != 1:
                    ok = False
                    break
                owner[id(ld)] = ks[0]
            if not ok:
                continue
            order = sorted(range(len(defs)), key=lambda k: (getattr(defs[k][0][defs[k][1]], "lineno", 0), k))
            for rank, k in enumerate(order):
                if rank == 0:
                    continue
                new = f"{v}__{rank + 1}"
                blk, i = defs[k]
                blk[i].targets[0].id = new  # type: ignore[attr-defined]
                for ld in loads.get(v, []):
                    if owner[id(ld)] == k:
                        ld.id = new
                self.changed = True


# --------------------------------------------------------------------------- driver
def _canon_function(fn, may_write, single_use: bool = True) -> bool:
    """Fault-tolerant wrapper: a function whose canonicalisation fails (an internal error of a rewrite step) keeps the
    form it had before this call - the rules then see an un-normalised body (undecided clauses at worst), the other
    functions are not affected."""
    backup = copy.deepcopy(fn.body)
    try:
        return _canon_function_inner(fn, may_write, single_use)
    except (RecursionError, AttributeError, TypeError, KeyError, IndexError, ValueError) as e:  # noqa: BLE001
        fn.body = backup
        CANON_FAILURES.append(f"{getattr(fn, 'name', '?')}: {type(e).__name__}: {e}")
        return False


CANON_FAILURES: List[str] = []


def _list_iadd_to_extend(fn) -> bool:
    """`acc += it` -> `acc.extend(it)` for a local that is only ever bound to list displays / comprehensions / list()."""
    own = list(_own_nodes(fn))
    binds: Dict[str, List[ast.AST]] = {}
    for n in own:
        if isinstance(n, ast.Assign):
            for t in n.targets:
                if isinstance(t, ast.Name):
                    binds.setdefault(t.id, []).append(n.value)
                else:
                    for x in ast.walk(t):
                        if isinstance(x, ast.Name) and isinstance(x.ctx, ast.Store):
                            binds.setdefault(x.id, []).append(None)
        elif isinstance(n, ast.AnnAssign) and isinstance(n.target, ast.Name) and n.value is not None:
            binds.setdefault(n.target.id, []).append(n.value)
        elif isinstance(n, (ast.For, ast.comprehension)):
            for x in ast.walk(n.target):
                if isinstance(x, ast.Name):
                    binds.setdefault(x.id, []).append(None)
    params = _params(fn)

    def is_list(v) -> bool:
        return isinstance(v, (ast.List, ast.ListComp)) or (isinstance(v, ast.Call) and isinstance(v.func, ast.Name) and v.func.id == "list")

    lists = {k for k, vs in binds.items() if k not in params and vs and all(v is not None and is_list(v) for v in vs)}
    changed = False
    if not lists:
        return False
    for blk in SingleUseInliner._blocks(fn):
        for i, st in enumerate(blk):
            if isinstance(st, ast.AugAssign) and isinstance(st.op, ast.Add) and isinstance(st.target, ast.Name) and st.target.id in lists:
                call = ast.Call(func=ast.Attribute(value=ast.Name(id=st.target.id, ctx=ast.Load()), attr="extend", ctx=ast.Load()), args=[st.value], keywords=[])
                blk[i] = _loc(ast.Expr(value=call), st)
                for x in ast.walk(blk[i]):
                    ast.copy_location(x, st)
                changed = True
    return changed


def _dict_update_to_setitem(fn) -> bool:
    """`d.update(k=v)` / `d.update({'k': v})` as a statement -> `d['k'] = v` for a local that is only ever bound to dict
    displays / dict comprehensions / dict()."""
    own = list(_own_nodes(fn))
    binds: Dict[str, List[ast.AST]] = {}
    for n in own:
        if isinstance(n, ast.Assign):
            for t in n.targets:
                for x in ast.walk(t):
                    if isinstance(x, ast.Name) and isinstance(x.ctx, ast.Store):
                        binds.setdefault(x.id, []).append(n.value if t is x else None)
        elif isinstance(n, ast.AnnAssign) and isinstance(n.target, ast.Name) and n.value is not None:
            binds.setdefault(n.target.id, []).append(n.value)
        elif isinstance(n, (ast.For, ast.comprehension)):
            for x in ast.walk(n.target):
                if isinstance(x, ast.Name):
                    binds.setdefault(x.id, []).append(None)
    params = _params(fn)

    def is_dict(v) -> bool:
        return isinstance(v, (ast.Dict, ast.DictComp)) or (isinstance(v, ast.Call) and isinstance(v.func, ast.Name) and v.func.id == "dict")

    dicts = {k for k, vs in binds.items() if k not in params and vs and all(v is not None and is_dict(v) for v in vs)}
    changed = False
    if not dicts:
        return False
    for blk in SingleUseInliner._blocks(fn):
        i = 0
        while i < len(blk):
            st = blk[i]
            c = st.value if isinstance(st, ast.Expr) and isinstance(st.value, ast.Call) else None
            if c is not None and isinstance(c.func, ast.Attribute) and c.func.attr == "update" and isinstance(c.func.value, ast.Name) and c.func.value.id in dicts:
                pairs = None
                if not c.args and c.keywords and all(k.arg is not None for k in c.keywords):
                    pairs = [(ast.Constant(value=k.arg), k.value) for k in c.keywords]
                elif len(c.args) == 1 and not c.keywords and isinstance(c.args[0], ast.Dict) and all(k is not None for k in c.args[0].keys):
                    pairs = list(zip(c.args[0].keys, c.args[0].values))
                if pairs and len(pairs) == 1:
                    new = []
                    for k, v in pairs:
                        tgt = ast.Subscript(value=ast.Name(id=c.func.value.id, ctx=ast.Load()), slice=k, ctx=ast.Store())
                        a_ = ast.Assign(targets=[tgt], value=v)
                        for x in ast.walk(a_):
                            ast.copy_location(x, st)
                        new.append(a_)
                    blk[i:i + 1] = new
                    changed = True
            i += 1
    return changed


def _canon_function_inner(fn, may_write, single_use: bool = True) -> bool:
    changed = _list_iadd_to_extend(fn) if enabled("C2") else False
    if enabled("C2"):
        changed = _dict_update_to_setitem(fn) or changed
    for _ in range(6):
        round_changed = False
        ec = _ExprCanon()
        for i, st in enumerate(fn.body):
            fn.body[i] = ec.visit(st)
        bc = BlockCanon()
        fn.body = bc.block(fn.body, "func")
        if not fn.body:
            fn.body = [ast.Pass()]
        round_changed |= bc.changed
        if enabled("C5"):
            ai = AliasInliner(fn, may_write)
            ai.run()
            round_changed |= ai.changed
        if enabled("C5b") and single_use:
            si = SingleUseInliner(fn)
            si.run()
            round_changed |= si.changed
        if enabled("C8") and single_use:
            cc_ = ChosenCallable(fn)
            cc_.run()
            round_changed |= cc_.changed
        if enabled("C9") and single_use:
            ts = TailSinker(fn)
            ts.run()
            round_changed |= ts.changed
            ls = LiveRangeSplitter(fn)
            ls.run()
            round_changed |= ls.changed
        changed |= round_changed
        if not round_changed:
            break
    return changed


def _all_functions(tree: ast.Module):
    """(FunctionDef, class name or None, qualname) for every function, outermost first."""
    out = []

    def rec(body, cls, prefix, in_func):
        for st in body:
            if isinstance(st, FuncNode):
                q = prefix + st.name
                out.append((st, cls, q))
                for n in _own_nodes(st):
                    if isinstance(n, FuncNode):
                        rec_nested(n, cls, q + ".")
            elif isinstance(st, ast.ClassDef) and not in_func:
                rec(st.body, st.name, st.name + ".", False)
            elif isinstance(st, (ast.If, ast.Try)) and not in_func:
                blocks = [st.body, st.orelse] + ([st.finalbody] + [h.body for h in st.handlers] if isinstance(st, ast.Try) else [])
                for b in blocks:
                    rec(b, cls, prefix, False)

    def rec_nested(n, cls, prefix):
        q = prefix + n.name
        out.append((n, cls, q))
        for m in _own_nodes(n):
            if isinstance(m, FuncNode):
                rec_nested(m, cls, q + ".")

    rec(tree.body, None, "", False)
    return out


def may_write_table(modules: Dict[str, ast.Module]) -> Dict[str, Set[str]]:
    """name of a function/method -> attribute names it may rebind (directly or
    through calls, resolved by name only: an over-approximation)."""
    direct: Dict[str, Set[str]] = {}
    calls: Dict[str, Set[str]] = {}
    for tree in modules.values():
        for fn, cls, q in _all_functions(tree):
            w = direct.setdefault(fn.name, set())
            c = calls.setdefault(fn.name, set())
            for n in ast.walk(fn):
                if isinstance(n, ast.Attribute) and isinstance(n.ctx, (ast.Store, ast.Del)):
                    w.add(n.attr)
                elif isinstance(n, ast.Subscript) and isinstance(n.ctx, (ast.Store, ast.Del)):
                    w.add("<sub>")  # stores into / deletes from some container
                elif isinstance(n, ast.Call):
                    if isinstance(n.func, ast.Attribute):
                        if n.func.attr in _CONTAINER_MUTATORS:
                            w.add("<sub>")
                        c.add(n.func.attr)
                    elif isinstance(n.func, ast.Name):
                        c.add(n.func.id)
    # constructors: calling a class runs __init__
    changed = True
    while changed:
        changed = False
        for f, cs in calls.items():
            for c in cs:
                if c in direct and not direct[c] <= direct[f]:
                    direct[f] |= direct[c]
                    changed = True
    init = direct.get("__init__", set())
    direct["<ctor>"] = init
    # attribute names that are properties: what reading them reads (`x.children` reads `x._children`), closed under nesting
    preads: Dict[str, Set[str]] = {}
    for tree in modules.values():
        for fn, cls, q in _all_functions(tree):
            decs = {(x.id if isinstance(x, ast.Name) else getattr(x, "attr", "")) for x in fn.decorator_list}
            if decs & {"property", "cached_property"}:
                preads.setdefault(fn.name, set()).update(n.attr for n in ast.walk(fn) if isinstance(n, ast.Attribute) and isinstance(n.ctx, ast.Load))
    for _ in range(4):
        for k, v in preads.items():
            for a in list(v):
                v |= preads.get(a, set())
    for k, v in preads.items():
        direct["<prop>" + k] = v
    return direct


def _inline_new_constants(modules: Dict[str, ast.Module], known: Set[str]) -> int:
    """C11: a module-level `NAME = <literal>` that the reference tree does not have (the frozen list names the reference's
    module-level names as `mod:NAME`), assigned once and never rebound, is the literal at each of its uses in that module
    ("replace a magic literal by a constant" undone).  Names that another module imports stay."""
    n_inl = 0
    imported: Set[str] = set()
    for tree in modules.values():
        for st in ast.walk(tree):
            if isinstance(st, ast.ImportFrom):
                imported.update(a.name for a in st.names)
    for mod, tree in modules.items():
        cands: Dict[str, ast.expr] = {}
        counts: Dict[str, int] = {}
        for n in ast.walk(tree):
            if isinstance(n, ast.Name) and isinstance(n.ctx, (ast.Store, ast.Del)):
                counts[n.id] = counts.get(n.id, 0) + 1
            elif isinstance(n, (ast.Global, ast.Nonlocal)):
                for x in n.names:
                    counts[x] = counts.get(x, 0) + 5
            elif isinstance(n, ast.arg):
                counts[n.arg] = counts.get(n.arg, 0) + 5
        for st in tree.body:
            tgt = st.targets[0] if isinstance(st, ast.Assign) and len(st.targets) == 1 else (st.target if isinstance(st, ast.AnnAssign) and st.value is not None else None)
            if isinstance(tgt, ast.Name) and f"{mod}:{tgt.id}" not in known and counts.get(tgt.id, 0) == 1 and tgt.id not in imported:
                v = st.value
                lit = isinstance(v, ast.Constant) and (v.value is None or isinstance(v.value, (str, int, float, bool)))
                neg = isinstance(v, ast.UnaryOp) and isinstance(v.op, ast.USub) and isinstance(v.operand, ast.Constant) and isinstance(v.operand.value, (int, float))
                # a tuple of literals / dotted constants (`("dc", DC.ADDED)`) is as good as a literal
                tup = isinstance(v, ast.Tuple) and v.elts and all(
                    (isinstance(x, ast.Constant) and (x.value is None or isinstance(x.value, (str, int, float, bool)))) or (norm_name(x) and "." in norm_name(x) and norm_name(x).split(".")[0][:1].isupper())
                    for x in v.elts)
                if lit or neg or tup:
                    cands[tgt.id] = v
        if not cands:
            continue

        class Sub(ast.NodeTransformer):
            def visit_Name(self, node: ast.Name):
                nonlocal n_inl
                if node.id in cands and isinstance(node.ctx, ast.Load):
                    n_inl += 1
                    return ast.copy_location(copy.deepcopy(cands[node.id]), node)
                return node

        tree.body = [Sub().visit(st) for st in tree.body]
    return n_inl


def _positional_private_calls(modules: Dict[str, ast.Module]) -> None:
    """C11: `_helper(a=x, b=y)` -> `_helper(x, y)` for a private module-level function of the same module whose leading
    positional parameters are all given (keyword <-> positional spelling of one call)."""
    for mod, tree in modules.items():
        defs = {st.name: st for st in tree.body if isinstance(st, FuncNode) and st.name.startswith("_")}
        if not defs:
            continue
        for c in ast.walk(tree):
            if not (isinstance(c, ast.Call) and isinstance(c.func, ast.Name) and c.func.id in defs and c.keywords):
                continue
            d = defs[c.func.id]
            a = d.args
            if a.vararg or a.posonlyargs or any(isinstance(x, ast.Starred) for x in c.args) or any(k.arg is None for k in c.keywords):
                continue
            pos = [x.arg for x in a.args]
            kw = {k.arg: k for k in c.keywords}
            new_args = list(c.args)
            i = len(new_args)
            moved = []
            while i < len(pos) and pos[i] in kw:
                new_args.append(kw[pos[i]].value)
                moved.append(pos[i])
                i += 1
            # argument evaluation order must stay: the moved keywords must have been the first keywords, in this order
            if moved and [k.arg for k in c.keywords[:len(moved)]] == moved:
                c.args = new_args
                c.keywords = [k for k in c.keywords if k.arg not in moved]


def new_option_params(modules: Dict[str, ast.Module]) -> List[Tuple[str, str, str]]:
    """(module, qualname, parameter) for every parameter of a function of the reference tree that the reference's
    signature does not have - a *new option*."""
    from .known_funcs import KNOWN_PARAMS

    out = []
    for mod, tree in modules.items():
        for fn, cls, q in _all_functions(tree):
            ref = KNOWN_PARAMS.get(f"{mod}:{q}")
            if ref is None:
                continue
            a = fn.args
            for x in a.posonlyargs + a.args + a.kwonlyargs:
                if x.arg not in ref:
                    out.append((mod, q, x.arg))
    return out


def _const_like(d: Optional[ast.AST]) -> bool:
    """A default that denotes one immutable value everywhere: a literal constant, or a dotted NAME.MEMBER / NAME_IN_CAPS
    (enum member, module constant)."""
    if isinstance(d, ast.Constant):
        return True
    if isinstance(d, ast.Attribute) and isinstance(d.value, ast.Name) and d.attr.upper() == d.attr:
        return True
    return isinstance(d, ast.Name) and d.id.upper() == d.id and len(d.id) > 1


def project_new_options(modules: Dict[str, ast.Module]) -> int:
    """P0 (only for the *projected* model that the pin rules read): the behaviour for the calls the reference accepts.
    In a function of the reference tree, a new parameter with a constant default that the body never rebinds is replaced
    by that default (the tests on it fold in C1/C2), and a keyword argument that thereby passes a callee's own default
    explicitly is dropped.  What the package does when a new option is *used* is not stated by any property; the
    structural rules still read the unprojected code."""
    by_name: Dict[str, List[ast.AST]] = {}
    for mod, tree in modules.items():
        for fn, cls, q in _all_functions(tree):
            by_name.setdefault(fn.name, []).append(fn)

    def default_of(fn, name: str) -> Optional[ast.AST]:
        a = fn.args
        pos = a.posonlyargs + a.args
        for x, d in list(zip(pos[len(pos) - len(a.defaults):], a.defaults)) + list(zip(a.kwonlyargs, a.kw_defaults)):
            if x.arg == name:
                return d
        return None

    count = 0
    new = new_option_params(modules)
    trees = {mod: {q: fn for fn, cls, q in _all_functions(tree)} for mod, tree in modules.items()}
    marked: Set[int] = set()
    for mod, q, pname in new:
        fn = trees[mod][q]
        d = default_of(fn, pname)
        if not _const_like(d):
            continue
        if any(isinstance(x, ast.Name) and x.id == pname and isinstance(x.ctx, (ast.Store, ast.Del)) for st in fn.body for x in ast.walk(st)):
            continue
        if any(isinstance(x, (ast.Global, ast.Nonlocal)) and pname in x.names for st in fn.body for x in ast.walk(st)):
            continue
        if any(isinstance(x, ast.arg) and x.arg == pname for st in fn.body for x in ast.walk(st)):
            continue  # shadowed in a nested function / lambda

        class _Sub(ast.NodeTransformer):
            def visit_Name(self, n: ast.Name):
                if n.id == pname and isinstance(n.ctx, ast.Load):
                    c = _loc(copy.deepcopy(d), n)
                    marked.add(id(c))
                    return c
                return n

        fn.body = [_Sub().visit(st) for st in fn.body]
        count += 1
    if marked:
        for tree in modules.values():
            for c in ast.walk(tree):
                if not isinstance(c, ast.Call) or not (c.keywords or c.args):
                    continue
                nm = c.func.attr if isinstance(c.func, ast.Attribute) else c.func.id if isinstance(c.func, ast.Name) else None
                cands = by_name.get(nm or "", [])
                if not cands:
                    continue
                keep = []
                for k in c.keywords:
                    if k.arg is not None and id(k.value) in marked:
                        # (a candidate that has no such parameter cannot be the callee of this call)
                        having = [g for g in cands if any(x.arg == k.arg for x in g.args.posonlyargs + g.args.args + g.args.kwonlyargs)]
                        ds = [default_of(g, k.arg) for g in having]
                        if having and all(d_ is not None and ast.dump(d_) == ast.dump(k.value) for d_ in ds):
                            continue
                    keep.append(k)
                c.keywords = keep
                # a trailing positional argument that passes the callee's own default
                while c.args and id(c.args[-1]) in marked and not c.keywords:
                    pos_i = len(c.args) - 1
                    ok_ = True
                    for g in cands:
                        ps = [x.arg for x in g.args.posonlyargs + g.args.args]
                        if ps and ps[0] in ("self", "cls") and isinstance(c.func, ast.Attribute):
                            ps = ps[1:]
                        if pos_i >= len(ps):
                            ok_ = False
                            break
                        d_ = default_of(g, ps[pos_i])
                        if d_ is None or ast.dump(d_) != ast.dump(c.args[-1]):
                            ok_ = False
                            break
                    if not ok_:
                        break
                    c.args = c.args[:-1]
    return count


def canonicalise(modules: Dict[str, ast.Module], known_funcs: Optional[Set[str]] = None, project: bool = False) -> Dict[str, int]:
    """Rewrite all function bodies of the package in place.  Returns counters."""
    stats = {"functions": 0, "changed": 0, "inlined_helpers": 0}
    HelperInliner.USED = set()
    if os.environ.get("SA_CANON", "all") in ("0", "none", "off"):
        return stats
    if project:
        stats["projected_options"] = project_new_options(modules)
    if enabled("C11") and known_funcs is not None:
        stats["inlined_constants"] = _inline_new_constants(modules, known_funcs)
        _positional_private_calls(modules)
    may_write = may_write_table(modules)
    funcs = {mod: _all_functions(tree) for mod, tree in modules.items()}
    for mod, lst in funcs.items():
        for fn, cls, q in lst:
            stats["functions"] += 1
            if _canon_function(fn, may_write, single_use=False):
                stats["changed"] += 1
    if enabled("C6") and known_funcs is not None:
        new_ids: Set[int] = set()
        for mod, lst in funcs.items():
            for fn, cls, q in lst:
                if any((d_.id if isinstance(d_, ast.Name) else getattr(d_, "attr", getattr(getattr(d_, "func", None), "id", getattr(getattr(d_, "func", None), "attr", "?")))) not in ("staticmethod", "classmethod")
                       for d_ in fn.decorator_list):
                    continue  # a decorated helper is not its body (lru_cache, contextmanager, property ...)
                if f"{mod}:{q}" not in known_funcs and not (fn.name.startswith("__") and fn.name.endswith("__")) and (fn.name.startswith("_") or cls is not None):
                    # a new private helper - or a new public method that a function of the reference tree now delegates
                    # to (it stays in the model as a function of its own; only private helpers are dropped when dead)
                    new_ids.add(id(fn))
                elif f"{mod}:{q}" not in known_funcs and "." in q and not fn.name.startswith("__"):
                    # new nested closures may have any name
                    if any(q.startswith(q2 + ".") for (_, _, q2) in lst):
                        new_ids.add(id(fn))
        if new_ids:
            class_methods: Dict[str, Dict[str, ast.AST]] = {}
            for mod, tree in modules.items():
                for n in ast.walk(tree):
                    if isinstance(n, ast.ClassDef):
                        class_methods.setdefault(n.name, {}).update({s.name: s for s in n.body if isinstance(s, FuncNode)})
            for mod, lst in funcs.items():
                module_funcs = {fn.name: fn for fn, cls, q in lst if cls is None and "." not in q}
                hi = HelperInliner(module_funcs, class_methods, {}, new_ids)
                for fn, cls, q in lst:
                    before = hi.changed
                    hi.changed = False
                    backup_ = copy.deepcopy(fn.body)
                    try:
                        hi.inline_into(fn, cls)
                    except (RecursionError, AttributeError, TypeError, KeyError, IndexError, ValueError) as e_:  # noqa: BLE001
                        fn.body = backup_
                        hi.changed = False
                        CANON_FAILURES.append(f"{fn.name}: helper inlining: {type(e_).__name__}: {e_}")
                    if hi.changed:
                        stats["inlined_helpers"] += 1
                        _canon_function(fn, may_write, single_use=False)
                    hi.changed = hi.changed or before
    # new helpers whose every call was inlined are dead code now: drop them, so that no rule analyses the
    # extracted fragment out of its context (a helper that is still referenced anywhere stays)
    if enabled("C6") and known_funcs is not None:
        new_defs = []
        for mod, lst in funcs.items():
            for fn, cls, q in lst:
                if f"{mod}:{q}" not in known_funcs and fn.name.startswith("_") and not (fn.name.startswith("__") and fn.name.endswith("__")):
                    new_defs.append((mod, fn))
                elif f"{mod}:{q}" not in known_funcs and "." in q and cls is None and not fn.name.startswith("__"):
                    new_defs.append((mod, fn))
        if new_defs:
            refs: Dict[str, int] = {}
            for tree in modules.values():
                for n in ast.walk(tree):
                    if isinstance(n, ast.Name) and isinstance(n.ctx, ast.Load):
                        refs[n.id] = refs.get(n.id, 0) + 1
                    elif isinstance(n, ast.Attribute) and isinstance(n.ctx, ast.Load):
                        refs[n.attr] = refs.get(n.attr, 0) + 1
                    elif isinstance(n, ast.Constant) and isinstance(n.value, str) and n.value.isidentifier():
                        refs[n.value] = refs.get(n.value, 0) + 1  # getattr(x, "name")
            # names that are looked up dynamically: `getattr(obj, f"_visit_{...}")` reaches every method with that prefix
            dyn_prefixes = set()
            for tree in modules.values():
                for n in ast.walk(tree):
                    if isinstance(n, ast.Call) and isinstance(n.func, ast.Name) and n.func.id in ("getattr", "hasattr") and len(n.args) >= 2 and isinstance(n.args[1], ast.JoinedStr) \
                            and n.args[1].values and isinstance(n.args[1].values[0], ast.Constant) and isinstance(n.args[1].values[0].value, str) and n.args[1].values[0].value:
                        dyn_prefixes.add(n.args[1].values[0].value)
            # (a helper that was inlined somewhere has static call sites and is judged by its references alone; one that was
            # never called by name may be reached through such a lookup and stays)
            dead = {id(fn) for mod, fn in new_defs if refs.get(fn.name, 0) == 0
                    and (id(fn) in HelperInliner.USED or not any(fn.name.startswith(px) for px in dyn_prefixes))}
            if os.environ.get("SA_KEEP_HELPERS"):
                # (round-trip tool: a helper that was inlined stays defined - a check script may import it; what is dropped as
                # never referenced is still dropped, so that a wrong deletion shows in the controls)
                dead = {i_ for i_ in dead if i_ not in HelperInliner.USED}
            # references from inside other dead helpers do not count - keep it simple: one pass
            if dead:
                for tree in modules.values():
                    for n in ast.walk(tree):
                        for fname, val in ast.iter_fields(n):
                            if isinstance(val, list) and any(id(x) in dead for x in val):
                                val[:] = [x for x in val if id(x) not in dead] or [ast.Pass()]
                stats["removed_helpers"] = len(dead)
                funcs = {mod: _all_functions(tree) for mod, tree in modules.items()}
    # last: statement splitting is undone (after helper inlining, which works on whole statements)
    for mod, lst in funcs.items():
        for fn, cls, q in lst:
            _canon_function(fn, may_write, single_use=True)
    for tree in modules.values():
        ast.fix_missing_locations(tree)
    if CANON_FAILURES:
        stats["failed_functions"] = len(CANON_FAILURES)
        del CANON_FAILURES[:]
    return stats
