"""Statement-level control-flow graph for one function, with exceptional edges.

Nodes are simple statements and the headers of compound statements (the test
of an if/while, the iterator of a for, the context expression of a with, an
except clause).  Every node that lies inside the function has an exceptional
successor (the innermost enclosing handlers, or EXIT_EXC); whether that edge is
*feasible* is decided by the rule that queries the graph through a
``may_raise(node)`` predicate, so the graph itself is rule-independent.
"""
from __future__ import annotations

import ast
from typing import Callable, Dict, Iterable, List, Optional, Set, Tuple


class N:
    __slots__ = ("id", "kind", "ast", "succ", "exc", "label")

    def __init__(self, id: int, kind: str, node: Optional[ast.AST], label: str = ""):
        self.id = id
        self.kind = kind  # entry exit exit_exc stmt test iter with handler
        self.ast = node
        self.succ: List[Tuple["N", str]] = []  # (node, edge label)
        self.exc: List["N"] = []  # exceptional successors
        self.label = label

    @property
    def lineno(self) -> int:
        return getattr(self.ast, "lineno", 0)

    def __repr__(self) -> str:
        return f"<{self.kind}#{self.id} L{self.lineno}>"


class CFG:
    def __init__(self, fnode: ast.AST):
        self.nodes: List[N] = []
        self.entry = self._new("entry", None)
        self.exit = self._new("exit", None)
        self.exit_exc = self._new("exit_exc", None)
        self.by_ast: Dict[int, N] = {}
        self._loops: List[Tuple[N, List[N]]] = []  # (continue target, break list)
        ends = self._block(fnode.body, [self.entry], [self.exit_exc])
        self._connect(ends, self.exit)

    # ----------------------------------------------------------- construction
    def _new(self, kind, node, label="") -> N:
        n = N(len(self.nodes), kind, node, label)
        self.nodes.append(n)
        if node is not None:
            self.by_ast.setdefault(id(node), n)
        return n

    @staticmethod
    def _edge(a: N, b: N, label: str = "") -> None:
        a.succ.append((b, label))

    def _block(self, body: List[ast.stmt], preds: List, handlers: List[N]) -> List:
        """Wire `body` after `preds`; return the list of open ends.
        preds/ends are lists of (node, label) tuples or nodes."""
        cur = preds
        for st in body:
            cur = self._stmt(st, cur, handlers)
        return cur

    def _connect(self, preds, n: N) -> None:
        for p in preds:
            if isinstance(p, tuple):
                self._edge(p[0], n, p[1])
            else:
                self._edge(p, n)

    def _stmt(self, st: ast.stmt, preds, handlers: List[N]):
        if isinstance(st, (ast.FunctionDef, ast.AsyncFunctionDef, ast.ClassDef)):
            n = self._new("stmt", st, "def")
            self._connect(preds, n)
            return [n]
        if isinstance(st, ast.If):
            t = self._new("test", st.test, "if")
            self.by_ast[id(st)] = t
            t.exc = list(handlers)
            self._connect(preds, t)
            a = self._block(st.body, [(t, "true")], handlers)
            b = self._block(st.orelse, [(t, "false")], handlers) if st.orelse else [(t, "false")]
            return a + b
        if isinstance(st, ast.While):
            t = self._new("test", st.test, "while")
            self.by_ast[id(st)] = t
            t.exc = list(handlers)
            self._connect(preds, t)
            breaks: List = []
            self._loops.append((t, breaks))
            ends = self._block(st.body, [(t, "true")], handlers)
            self._loops.pop()
            self._connect(ends, t)
            out = [(t, "false")]
            if st.orelse:
                out = self._block(st.orelse, out, handlers)
            return out + breaks
        if isinstance(st, (ast.For, ast.AsyncFor)):
            h = self._new("iter", st, "for")
            h.exc = list(handlers)
            self._connect(preds, h)
            breaks = []
            self._loops.append((h, breaks))
            ends = self._block(st.body, [(h, "loop")], handlers)
            self._loops.pop()
            self._connect(ends, h)
            out = [(h, "done")]
            if st.orelse:
                out = self._block(st.orelse, out, handlers)
            return out + breaks
        if isinstance(st, (ast.With, ast.AsyncWith)):
            w = self._new("with", st, "with")
            w.exc = list(handlers)
            self._connect(preds, w)
            return self._block(st.body, [w], handlers)
        if isinstance(st, ast.Try):
            return self._try(st, preds, handlers)
        n = self._new("stmt", st)
        n.exc = list(handlers)
        self._connect(preds, n)
        if isinstance(st, ast.Return):
            self._edge(n, self.exit, "return")
            return []
        if isinstance(st, ast.Raise):
            n.label = "raise"
            return []
        if isinstance(st, ast.Break):
            if self._loops:
                self._loops[-1][1].append(n)
            return []
        if isinstance(st, ast.Continue):
            if self._loops:
                self._edge(n, self._loops[-1][0], "continue")
            return []
        return [n]

    def _try(self, st: ast.Try, preds, handlers: List[N]):
        hnodes: List[N] = []
        for h in st.handlers:
            hn = self._new("handler", h, "except")
            hnodes.append(hn)
        catch_all = any(
            h.type is None
            or (isinstance(h.type, ast.Name) and h.type.id in ("Exception", "BaseException"))
            for h in st.handlers
        )
        if st.finalbody:
            # exceptional copy of the finally block, ends propagate outward
            fin_entry = self._new("stmt", ast.Pass(), "finally-exc")
            fe = self._block(st.finalbody, [fin_entry], handlers)
            for e in fe:
                en = e[0] if isinstance(e, tuple) else e
                en.exc = list(en.exc) + []
                for hh in handlers:
                    self._edge(en, hh, "reraise")
            outer = [fin_entry]
        else:
            outer = list(handlers)
        body_handlers = hnodes + ([] if catch_all else outer)
        ends = self._block(st.body, preds, body_handlers)
        if st.orelse:
            ends = self._block(st.orelse, ends, outer)
        for h, hn in zip(st.handlers, hnodes):
            hn.exc = list(outer)
            ends = ends + self._block(h.body, [hn], outer)
        if st.finalbody:
            ends = self._block(st.finalbody, ends, handlers)
        return ends

    # ---------------------------------------------------------------- queries
    def node_for(self, a: ast.AST) -> Optional[N]:
        return self.by_ast.get(id(a))

    def preds(self) -> Dict[int, List[N]]:
        """Predecessor map over normal and exceptional edges."""
        if getattr(self, "_preds", None) is None:
            pm: Dict[int, List[N]] = {n.id: [] for n in self.nodes}
            for n in self.nodes:
                for s, _ in n.succ:
                    pm[s.id].append(n)
                for s in n.exc:
                    pm[s.id].append(n)
            self._preds = pm
        return self._preds

    def stmt_node_of(self, a: ast.AST, parent_of) -> Optional[N]:
        """CFG node of the statement (or header) that contains expression a."""
        cur = a
        while cur is not None:
            n = self.by_ast.get(id(cur))
            if n is not None:
                return n
            cur = parent_of(cur)
        return None

    def reaching_assignments(self, at: N, name: str) -> List[N]:
        """CFG nodes that bind `name` and reach `at` without an intervening
        re-binding (assignment statements, for headers, with headers)."""
        pm = self.preds()
        seen: Set[int] = set()
        out: List[N] = []
        stack = list(pm[at.id])
        while stack:
            n = stack.pop()
            if n.id in seen:
                continue
            seen.add(n.id)
            if _binds(n, name):
                out.append(n)
                continue
            stack.extend(pm[n.id])
        return out

    def stmt_nodes(self) -> List[N]:
        return [n for n in self.nodes if n.kind not in ("entry", "exit", "exit_exc")]

    def successors(self, n: N, may_raise: Optional[Callable[[N], bool]] = None) -> List[N]:
        out = [s for s, _ in n.succ]
        if n.kind == "stmt" and n.label == "raise":
            out = out + n.exc
        elif may_raise is not None and n.exc and may_raise(n):
            out = out + n.exc
        return out

    def reachable(
        self,
        start: Iterable[N],
        *,
        avoid: Optional[Callable[[N], bool]] = None,
        may_raise: Optional[Callable[[N], bool]] = None,
        include_start: bool = True,
        exc_through: bool = False,
    ) -> Set[int]:
        """Ids of nodes reachable from `start` without passing *through* a node
        satisfying `avoid` (such nodes are not entered).  With exc_through, an
        avoided statement that raises has not had its effect: its handlers are
        still reached (try: d[k].append(x) / except KeyError: ...)."""
        seen: Set[int] = set()
        stack: List[N] = []

        def push(t: N) -> None:
            if avoid is None or not avoid(t):
                stack.append(t)
            elif exc_through and may_raise is not None and may_raise(t):
                for h in t.exc:
                    if h.kind != "exit_exc" and (avoid is None or not avoid(h)):
                        stack.append(h)

        for s in start:
            if include_start:
                push(s)
            else:
                for t in self.successors(s, may_raise):
                    push(t)
        while stack:
            n = stack.pop()
            if n.id in seen:
                continue
            seen.add(n.id)
            for t in self.successors(n, may_raise):
                if t.id not in seen:
                    push(t)
        return seen

    def dominated_by(
        self,
        target: N,
        pred: Callable[[N], bool],
        *,
        may_raise: Optional[Callable[[N], bool]] = None,
        exc_through: bool = False,
    ) -> bool:
        """Every path entry -> target passes through a node satisfying pred
        (target itself does not count)."""
        if pred(self.entry):
            return True
        r = self.reachable(
            [self.entry], avoid=lambda n: n is not target and pred(n), may_raise=may_raise,
            exc_through=exc_through,
        )
        return target.id not in r

    def find_path(
        self,
        src: N,
        dst: N,
        *,
        avoid: Optional[Callable[[N], bool]] = None,
        may_raise: Optional[Callable[[N], bool]] = None,
        strict: bool = False,
    ) -> Optional[List[N]]:
        """Shortest path src -> dst (BFS). With strict, at least one edge."""
        from collections import deque

        prev: Dict[int, Optional[N]] = {}
        q = deque()
        if strict:
            for t in self.successors(src, may_raise):
                if (avoid is None or not avoid(t) or t is dst) and t.id not in prev:
                    prev[t.id] = src
                    q.append(t)
        else:
            prev[src.id] = None
            q.append(src)
        while q:
            n = q.popleft()
            if n is dst:
                path = [n]
                p = prev.get(n.id)
                while p is not None and (p is not src or not strict):
                    path.append(p)
                    p = prev.get(p.id)
                if strict:
                    path.append(src)
                return list(reversed(path))
            if avoid is not None and avoid(n) and n is not src:
                continue
            for t in self.successors(n, may_raise):
                if t.id not in prev:
                    prev[t.id] = n
                    q.append(t)
        return None

    def all_paths_pass(
        self,
        start: N,
        ends: Iterable[N],
        pred: Callable[[N], bool],
        *,
        may_raise: Optional[Callable[[N], bool]] = None,
    ) -> Optional[List[N]]:
        """None if every path start -> any end passes a node satisfying pred
        (strictly after start); otherwise a witness path avoiding pred."""
        for e in ends:
            p = self.find_path(start, e, avoid=pred, may_raise=may_raise, strict=True)
            if p is not None:
                # the destination itself may satisfy pred only if it is an exit
                return p
        return None

    def enumerate_paths(self, *, may_raise=None, loop_bound: int = 2, limit: int = 20000):
        """Bounded enumeration of entry->exit/exit_exc paths: every node may be
        visited at most loop_bound+1 times per path."""
        out = []
        count = [0]

        def rec(n: N, path: List[N], visits: Dict[int, int]):
            if count[0] >= limit:
                return
            if n.kind in ("exit", "exit_exc"):
                out.append(path + [n])
                count[0] += 1
                return
            v = visits.get(n.id, 0)
            if v > loop_bound:
                return
            visits[n.id] = v + 1
            for t in self.successors(n, may_raise):
                rec(t, path + [n], visits)
            visits[n.id] = v

        rec(self.entry, [], {})
        return out


def _target_names(t: ast.AST) -> Set[str]:
    out: Set[str] = set()
    for x in ast.walk(t):
        if isinstance(x, ast.Name):
            out.add(x.id)
    return out


def _binds(n: N, name: str) -> bool:
    a = n.ast
    if n.kind == "stmt":
        if isinstance(a, ast.Assign):
            return any(name in _target_names(t) for t in a.targets if not isinstance(t, (ast.Attribute, ast.Subscript)))
        if isinstance(a, (ast.AnnAssign, ast.AugAssign)):
            return isinstance(a.target, ast.Name) and a.target.id == name
        if isinstance(a, (ast.FunctionDef, ast.AsyncFunctionDef)):
            return a.name == name
        return False
    if n.kind == "iter":
        return name in _target_names(a.target)
    if n.kind == "with":
        return any(i.optional_vars is not None and name in _target_names(i.optional_vars) for i in a.items)
    if n.kind == "handler":
        return a.name == name
    return False


def describe_path(path: List[N]) -> List[str]:
    from .model import norm

    out = []
    for n in path:
        if n.kind in ("entry", "exit", "exit_exc"):
            out.append(n.kind.upper())
        elif n.kind == "iter":
            out.append(f"L{n.lineno} for {norm(n.ast.target)} in {norm(n.ast.iter)}")
        elif n.kind == "with":
            out.append(f"L{n.lineno} with " + ", ".join(norm(i.context_expr) for i in n.ast.items))
        elif n.kind == "handler":
            t = norm(n.ast.type) if n.ast.type is not None else ""
            out.append(f"L{n.lineno} except {t}")
        elif n.kind == "test":
            out.append(f"L{n.lineno} {n.label} {norm(n.ast)}")
        else:
            out.append(f"L{n.lineno} {norm(n.ast)}")
    return out
