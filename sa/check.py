"""CLI: decide the structural clauses of one property on /repo's current tree.

    python3 -m sa.check C01 [--tier quick|thorough] [--root DIR] [--replay FILE]

exit 0  all obligations discharged (or listed in known_findings.json)
exit 1  VIOLATION property=<id> replay=<path>   (one line per new finding)
exit 2  ANALYSIS-ERROR ...                      (cannot decide; never a pass)
"""
from __future__ import annotations

import argparse
import json
import os
import sys
import time
import traceback
from typing import Dict, List

HERE = os.path.dirname(os.path.abspath(__file__))
VERIF = os.path.dirname(HERE)


def load_known() -> Dict[str, List[dict]]:
    p = os.path.join(VERIF, "known_findings.json")
    if not os.path.exists(p):
        return {}
    with open(p, encoding="utf8") as fp:
        data = json.load(fp)
    out: Dict[str, List[dict]] = {}
    for e in data.get("findings", []):
        out.setdefault(e["property"], []).append(e)
    return out


def main(argv=None) -> int:
    ap = argparse.ArgumentParser()
    ap.add_argument("prop")
    ap.add_argument("--tier", default=os.environ.get("VERIF_TIER", "quick"))
    ap.add_argument("--root", default=None)
    ap.add_argument("--replay", default=None)
    ap.add_argument("--no-evidence", action="store_true")
    ap.add_argument("--list", action="store_true", help="print every obligation")
    args = ap.parse_args(argv)
    if args.tier not in ("quick", "thorough"):
        args.tier = "quick"
    try:
        seed = int(os.environ.get("VERIF_SEED", "0"))
    except ValueError:
        seed = 0
    t0 = time.time()
    pid = args.prop
    try:
        from . import props  # noqa: F401  (registers rules)
        from .core import RULES, Ctx, run_rule
        from .model import AnalysisError

        if pid not in props.PROPS:
            print(f"ANALYSIS-ERROR unknown or unclaimed property {pid}")
            return 2
        ctx = Ctx(args.root, tier=args.tier)
        stats = ctx.model.stats()
        floors = props.UNIT_FLOORS
        for k, v in floors.items():
            if stats.get(k, 0) < v:
                raise AnalysisError(f"units analysed below floor: {k}={stats.get(k)} < {v}")
        dyn = ctx.model.forbidden_dynamic()
        if dyn:
            raise AnalysisError("dynamic attribute machinery found (effect layer unsound): " + "; ".join(dyn))
        res = ctx.env.resolution_stats()
        if len(ctx.env.weak_sites) > props.MAX_WEAK_SITES:
            raise AnalysisError(
                f"{len(ctx.env.weak_sites)} weakly resolved call sites (limit {props.MAX_WEAK_SITES}): "
                + "; ".join(ctx.env.weak_sites[:8])
            )
        obs = []
        rules_run = []
        rule_errors = []
        for rd in RULES.values():
            if pid not in rd.props:
                continue
            if args.replay:
                with open(args.replay, encoding="utf8") as fp:
                    rp = json.load(fp)
                if rp.get("rule") != rd.name:
                    continue
            try:
                ro = run_rule(ctx, rd)
            except AnalysisError as e:
                # this rule cannot decide; the other rules still report what they find
                rule_errors.append(f"rule {rd.name}: {e}")
                continue
            rules_run.append(rd)
            obs += [o for o in ro if pid in o.props]
        selftest = None
        if args.tier == "thorough" and not args.replay:
            # checker self-test (variants + the committed patch corpora of this property).  It says something about the
            # *checker*, never about the tree: its outcome cannot hide or replace the verdict computed above.  A failing
            # variant is a broken checker (exit 2) only on the reference tree the variants were written against and only
            # when the tree itself is clean; on a changed tree it is recorded as inconclusive.
            from . import selftest as st
            from .known_funcs import REFERENCE_DIGEST

            selftest = st.run_for_property(pid, ctx)
            selftest["tree_is_reference"] = st.tree_digest(ctx.root) == REFERENCE_DIGEST
            und = [o for o in obs if o.note and getattr(o, "undecided", False)]
            if selftest["tree_is_reference"] and und:
                # every clause is decided on the tree the rules were written against; an undecided one means a rule lost its anchor
                selftest.setdefault("errors", []).extend(f"clause undecided on the reference tree: {o.rule} {o.construct}" for o in und[:5])
    except Exception as e:  # noqa: BLE001
        from .model import AnalysisError as AE

        if isinstance(e, AE):
            print(f"ANALYSIS-ERROR property={pid} {e}")
        else:
            print(f"ANALYSIS-ERROR property={pid} internal error: {e!r}")
            traceback.print_exc()
        return 2

    known = load_known().get(pid, [])
    known_keys = {f"{k['rule']}|{k['site']}|{k['construct']}": k for k in known}
    findings = [o for o in obs if not o.ok and not o.note]
    notes = [o for o in obs if o.note]
    real = [o for o in obs if not o.note]
    new = []
    listed = []
    seen_keys = set()
    for o in findings:
        if o.key in seen_keys:
            continue
        seen_keys.add(o.key)
        if o.key in known_keys:
            listed.append(o)
        else:
            new.append(o)
    if args.replay:
        with open(args.replay, encoding="utf8") as fp:
            rp = json.load(fp)
        new = [o for o in new if o.key == rp.get("key")]
        listed = []

    print(
        f"[{pid}] tier={args.tier} units: {stats['modules']} modules, {stats['classes']} classes, "
        f"{stats['functions']} functions, {stats['call_sites']} call sites "
        f"(resolved {res['resolved']}, weak {res['weak']}, external {res['external']})"
    )
    by_rule: Dict[str, List] = {}
    for o in real:
        by_rule.setdefault(o.rule, []).append(o)
    for rd in rules_run:
        ro = by_rule.get(rd.name, [])
        nf = sum(1 for o in ro if not o.ok)
        print(f"  rule {rd.name:<14} instances={len(ro):<3} findings={nf}  (floor {rd.floor})")
    if args.list:
        for o in obs:
            print("   ", "ok " if o.ok else ("note" if o.note else "BAD"), o.rule, o.loc, o.site, "::", o.construct,
                  ("-- " + o.detail) if o.detail else "")
    for o in notes:
        print(f"  {'UNDECIDED' if getattr(o, 'undecided', False) else 'note'}: {o.rule} {o.loc} {o.construct}: {o.detail}")
    for o in listed:
        print(f"KNOWN-FINDING: property={pid} {o.rule} {o.site}: {o.construct} -- {known_keys[o.key].get('what', o.detail)}")
    replay_dir = os.path.join(VERIF, "evidence", "replay")
    vio_paths = []
    for i, o in enumerate(new):
        os.makedirs(replay_dir, exist_ok=True)
        rp = os.path.join(replay_dir, f"{pid}-{i}.json")
        with open(rp, "w", encoding="utf8") as fp:
            json.dump({"property": pid, "key": o.key, **o.to_json()}, fp, indent=1)
        vio_paths.append(rp)
        print(f"  {o.rule} {o.loc} in {o.site}: `{o.construct}`: {o.detail}")
        if o.path:
            for step in o.path:
                print(f"      {step}")
        print(f"VIOLATION property={pid} replay={rp}")

    for e in rule_errors:
        print(f"ANALYSIS-ERROR property={pid} {e}")
    if selftest is not None:
        print(f"  self-test: {selftest.get('breaking_fired')}/{selftest.get('breaking_total')} breaking variants reported, "
              f"{selftest.get('preserving_silent')}/{selftest.get('preserving_total')} preserving variants silent, "
              f"corpus: {selftest.get('corpus', {}).get('seeded_fired', 0)}/{selftest.get('corpus', {}).get('seeded_total', 0)} seeded changes reported, "
              f"{selftest.get('corpus', {}).get('benign_silent', 0)}/{selftest.get('corpus', {}).get('benign_total', 0)} refactorings silent"
              f"{'' if selftest.get('tree_is_reference') else ' (tree differs from the reference: failures are inconclusive)'}")
        if selftest.get("corpus", {}).get("skipped"):
            print(f"  self-test: corpus patches not counted (they do not apply to this tree, are filed under another property, or are documented known misses of "
                  f"the static family - DESIGN 10.6): {' '.join(map(str, selftest['corpus']['skipped']))}")
        if selftest.get("errors"):
            hard = selftest.get("tree_is_reference") and not new
            for e in selftest["errors"][:8]:
                print(f"  {'ANALYSIS-ERROR property=' + pid + ' checker self-test failed:' if hard else 'self-test inconclusive:'} {e}")
            if hard:
                rule_errors.append("checker self-test failed")
    wall = time.time() - t0
    if rule_errors and not new:
        # cannot decide and nothing else found: never a pass, never an alarm
        return 2
    if not args.no_evidence and not args.replay and args.root is None and not rule_errors:
        meta = props.PROPS[pid]
        distinct = len({o.key for o in real})
        samples = []
        per_rule_seen: Dict[str, int] = {}
        for o in real:
            c = per_rule_seen.get(o.rule, 0)
            if c < 3 or not o.ok:
                samples.append(o.to_json())
                per_rule_seen[o.rule] = c + 1
        ev = {
            "property_id": pid,
            "tier": args.tier,
            "seed": seed,
            "level": "other",
            "coverage": {
                "explanation": meta["explanation"],
                "not_decided": meta["not_decided"],
                "obligations": len(real),
                "discharged": sum(1 for o in real if o.ok),
                "known_findings": len(listed),
                "evaluations": len(real),
                "distinct_nontrivial": distinct,
                "rule": "an obligation is one (rule, function, construct) instance selected by the rule's "
                "query over the whole package; distinct = distinct keys; non-trivial = the query matched a "
                "real construct of /repo (rules with too few instances fail the run instead of passing)",
                "samples": samples[:80],
                "rules": [
                    {"rule": rd.name, "instances": len(by_rule.get(rd.name, [])), "floor": rd.floor,
                     "decides": rd.doc.split("\n")[0]}
                    for rd in rules_run
                ],
                "units": {**stats, **res},
                "notes": [o.to_json() for o in notes][:20],
                "undecided": sum(1 for o in notes if getattr(o, "undecided", False)),
                "canonical_form": getattr(ctx.model, "canon_stats", {}),
                "paths_enumerated": ctx.paths_enumerated,
                "selftest": selftest,
                "exhaustive": True,
                "trusted_base": [
                    "CPython ast parser",
                    "frozen supplement tables in sa/infer.py and sa/props.py; sa/known_funcs.py (functions of the reference tree)",
                    "the canonicalising rewrite sa/canon.py (each step behaviour-preserving under its stated side condition)",
                    "shape axioms: c in X._children => c._parent is X; nodes of T's index belong to T",
                    "user callbacks do not mutate the tree; data objects are not Nodes/Trees",
                ],
            },
            "assumptions": meta["assumptions"],
            "wall_s": round(wall, 3),
            "violations": len(new),
        }
        os.makedirs(os.path.join(VERIF, "evidence"), exist_ok=True)
        with open(os.path.join(VERIF, "evidence", f"{pid}.json"), "w", encoding="utf8") as fp:
            json.dump(ev, fp, indent=1, ensure_ascii=False)
            fp.write("\n")
    print(
        f"[{pid}] obligations={len(real)} discharged={sum(1 for o in real if o.ok)} "
        f"known={len(listed)} new={len(new)} wall={wall:.2f}s"
    )
    return 1 if new else 0


if __name__ == "__main__":
    sys.exit(main())
