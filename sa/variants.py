"""Variant corpus for the checker self-test (see selftest.py).

Every entry edits one construct of the *current* /repo sources, located by
(file, qualified function, fragment).  kind 'break' = the edit violates a
clause (the pre-fix constructs of the repaired defects are kept here so the rules
stay live after the repair); kind 'keep' = behaviour-preserving refactoring.
"""
from __future__ import annotations

from typing import List

VARIANTS: List[dict] = []


def V(id, props, kind, file, func, old, new, rules=None, more=None, all=False):
    edits = [{"file": file, "func": func, "old": old, "new": new, "all": all}]
    for m in more or []:
        edits.append({"file": m[0], "func": m[1], "old": m[2], "new": m[3], "all": len(m) > 4 and m[4]})
    VARIANTS.append({"id": id, "props": props, "kind": kind, "rules": rules, "edits": edits})


N, T, TT, C = "node.py", "tree.py", "typed_tree.py", "common.py"

# ------------------------------------------------------------------ C01
V("c01-remove-no-unregister", ["C01", "C02"], "break", N, "Node.remove", "        self._tree._unregister(self)\n", "        pass\n", ["MUST"])
V("c01-remove-no-children", ["C01"], "break", N, "Node.remove", "            self.remove_children()\n", "            pass\n", ["MUST"])
V("c01-remove-children-preorder", ["C01", "C02"], "break", N, "Node.remove_children", "self._iter_post()", "self._iter_pre()", ["MUST"])
V("c01-remove-children-direct-only", ["C01", "C02"], "break", N, "Node.remove_children", "self._iter_post()", "self.children", ["MUST", "ITER-INV"])
V("c01-remove-by-equality", ["C01"], "break", N, "Node.remove", "pc.pop(_index_of(pc, self))", "pc.remove(self)", ["ID-EQ"])
V("c01-move-by-equality", ["C01"], "break", N, "Node.move_to", "pc.pop(_index_of(pc, self))", "pc.remove(self)", ["ID-EQ"])
V("c01-move-no-cycle-guard", ["C01"], "break", N, "Node.move_to",
  "        if new_parent is self or new_parent.is_descendant_of(self):\n            raise ValueError(\n                f\"Cannot move {self} below itself or one of its descendants\"\n            )\n", "", ["GUARD-CYCLE"])
V("c01-register-no-rollback", ["C01", "C13", "C03"], "break", T, "Tree._register", "                    del self._node_by_id[node._node_id]\n", "", ["REG-CHK"])
V("c01-unregister-pop0", ["C01", "C02"], "break", T, "Tree._unregister", "clones.pop(i)", "clones.pop(0)", ["UNREG-SHAPE"])
V("c01-foreign-writer", ["C01"], "break", "diff.py", "_copy_children", "        add_set.add(n_dest._node_id)\n", "        add_set.add(n_dest._node_id)\n        n_dest._parent = dest\n", ["OWN-1"])
V("c01-add-not-linked", ["C01", "C04"], "break", N, "Node.add_child", "            children.append(node)\n", "            pass\n", ["MUST", "SIB-ADD"])
V("c01-filter-acc-rebind", ["C01", "C08"], "break", N, "Node.filter", "remove_nodes.extend(n.children)", "remove_nodes = n.children", ["ACC-REBIND", "PAIR-1", "SIB-FILTER", "ITER-INV"])
V("c01-remove-iter-live", ["C01"], "break", N, "Node.remove", "for c in self.children.copy():", "for c in self.children:", ["ITER-INV"])
V("c01-init-register-early", ["C01", "C02", "C03"], "break", N, "Node.__init__",
  "        tree = parent._tree\n        self._tree: Tree = tree\n", "        tree = parent._tree\n        self._tree: Tree = tree\n        tree._register(self)\n", ["MUST", "CB-CRIT", "ORDER-VBM"])
V("c01-link-existing-node", ["C01", "C07"], "break", N, "Node.add_child", "            node._add_from(source_node)\n",
  "            for c in source_node.children:\n                node.children.append(c)\n", ["PAIR-1", "ITER-INV"])
V("c01-keep-rename-pc", ["C01", "C13"], "keep", N, "Node.remove", "pc", "siblings", all=True)
V("c01-keep-inline-unregister", ["C01", "C02"], "keep", N, "Node.remove_children",
  "        _unregister = self._tree._unregister\n        for n in self._iter_post():\n            _unregister(n)\n",
  "        for n in self._iter_post():\n            self._tree._unregister(n)\n")
V("c01-keep-len-test", ["C01"], "keep", N, "Node.move_to", "if not self._parent._children:  # store", "if len(self._parent._children) == 0:  # store")
V("c01-keep-init-order", ["C01", "C02"], "keep", N, "Node.__init__", "        self._data = data\n        self._parent: Node = parent\n", "        self._parent: Node = parent\n        self._data = data\n")
V("c01-keep-post-order-via-iterator", ["C01"], "keep", N, "Node.remove_children", "self._iter_post()", "self.iterator(IterMethod.POST_ORDER)")

# ------------------------------------------------------------------ C02
V("c02-setdata-by-equality", ["C02"], "break", N, "Node.set_data", "cur_nodes.pop(_index_of(cur_nodes, self))", "node_map[self._data_id].remove(self)", ["ID-EQ"])
V("c02-setdata-keep-old-slot", ["C02"], "break", N, "Node.set_data",
  "                del node_map[self._data_id]\n                try:  # are we creating a clone now?", "                try:  # are we creating a clone now?", ["PAIR-3"])
V("c02-setdata-wrong-key", ["C02", "C04"], "break", N, "Node.set_data", "node_map[new_data_id] = [self]", "node_map[self._data_id] = [self]", ["PAIR-3"], all=True)
V("c02-unregister-keep-empty-slot", ["C02"], "break", T, "Tree._unregister", "        if not clones:\n            del self._nodes_by_data_id[node._data_id]\n", "", ["UNREG-SHAPE"])
V("c02-findall-slice-and-alias", ["C02", "C09"], "break", T, "Tree.find_all", "res[:max_results] if max_results else res.copy()", "res[max_results:] if max_results else res", ["LIMIT", "ESCAPE"])
V("c02-getclones-alias", ["C02"], "break", N, "Node.get_clones", "return clones.copy()", "return clones", ["ESCAPE", "DATAID-DEF"])
V("c02-init-falsy-id", ["C02"], "break", N, "Node.__init__", "        if data_id is None:\n", "        if not data_id:\n", ["FALSY", "DATAID-DEF"])
V("c02-register-no-append", ["C02"], "break", T, "Tree._register", "            clone_list.append(node)\n", "            pass\n", ["MUST"])
V("c02-nodefind-rederive", ["C02"], "break", N, "Node.is_clone", "self._tree._nodes_by_data_id.get(self._data_id)", "self._tree._nodes_by_data_id.get(self._tree.calc_data_id(self._data))", ["DATAID-DEF"])
V("c02-null-key-before-read", ["C02", "C01"], "break", T, "Tree._unregister",
  "        clones = self._nodes_by_data_id[node._data_id]\n", "        clones = self._nodes_by_data_id[node._data_id]\n        node._data_id = None\n", ["UNREG-SHAPE"])
V("c02-keep-rename-index", ["C02", "C04"], "keep", N, "Node.set_data", "node_map", "index", all=True)
V("c02-keep-register-if-raise", ["C02", "C01"], "keep", T, "Tree._register",
  "        assert node._node_id and node._node_id not in self._node_by_id, f\"{node}\"\n",
  "        if not node._node_id or node._node_id in self._node_by_id:\n            raise AssertionError(f\"{node}\")\n")
V("c02-keep-getclones-filter", ["C02"], "keep", N, "Node.get_clones", "return [n for n in clones if n is not self]", "return [c for c in clones if c is not self]")

# ------------------------------------------------------------------ C03
V("c03-move-no-uniq", ["C03"], "break", N, "Node.move_to",
  "        if new_parent is not self._parent:\n            for n in new_parent.children:\n                if n._data_id == self._data_id:\n                    raise UniqueConstraintError(\n                        f\"Node.data already exists in parent: {n}\"\n                    )\n", "", ["GUARD-UNIQ"])
V("c03-register-compare-node", ["C03"], "break", T, "Tree._register", "if clone.parent is node.parent:", "if clone.parent is node:", ["REG-CHK"])
V("c03-register-wrong-error", ["C03"], "break", T, "Tree._register", "raise UniqueConstraintError(\"Node.data already exists in parent\")", "raise ValueError(\"Node.data already exists in parent\")", ["REG-CHK"])
V("c03-add-same-parent-prefix", ["C03", "C05", "C07"], "break", N, "Node.add_child", "if source_node._parent is self:", "if source_node._parent is self._parent:", ["SIB-ADD"])
V("c03-register-append-before-scan", ["C03"], "break", T, "Tree._register",
  "            clone_list = self._nodes_by_data_id[node._data_id]  # may raise KeyError\n", "            clone_list = self._nodes_by_data_id[node._data_id]  # may raise KeyError\n            clone_list.append(node)\n", ["REG-CHK"])
V("c03-keep-rename-clone", ["C03", "C01"], "keep", T, "Tree._register", "clone.parent", "other.parent", more=[(T, "Tree._register", "for clone in clone_list:", "for other in clone_list:")])
V("c03-keep-any-form", ["C03"], "keep", N, "Node.move_to",
  "            for n in new_parent.children:\n                if n._data_id == self._data_id:\n                    raise UniqueConstraintError(\n                        f\"Node.data already exists in parent: {n}\"\n                    )\n",
  "            if any(n._data_id == self._data_id for n in new_parent.children):\n                raise UniqueConstraintError(\"Node.data already exists in parent\")\n")

# ------------------------------------------------------------------ C04
V("c04-append-prepends", ["C04"], "break", N, "Node.append_child", "before=None,", "before=True,", ["SHORTCUT"])
V("c04-prepend-sibling-appends", ["C04"], "break", N, "Node.prepend_sibling", "before=self,", "before=None,", ["SHORTCUT"])
V("c04-tree-add-drops-before", ["C04"], "break", T, "Tree.add_child", "            before=before,\n", "", ["KWARGS-FWD"])
V("c04-typed-prepend-prefix", ["C04", "C15"], "break", TT, "TypedNode.prepend_child", "self.first_child(ANY_KIND)", "self.first_child()", ["CALL-BIND", "SHORTCUT"])
V("c04-typed-append-sibling-prefix", ["C04"], "break", TT, "TypedNode.append_sibling", "self.next_sibling()", "self.next_sibling", ["UNCALLED", "SHORTCUT"])
V("c04-add-appends-at-front", ["C04"], "break", N, "Node.add_child", "            children.append(node)\n", "            children.insert(0, node)\n", ["SIB-ADD"])
V("c04-setmeta-drops-others", ["C04"], "break", N, "Node.set_meta", "            self._meta[key] = value\n", "            self._meta = {key: value}\n", ["FRAME"])
V("c04-updatemeta-alias", ["C04", "C07"], "break", N, "Node.update_meta", "values.copy()", "values", ["ALIAS-STORE", "FRAME"])
V("c04-sort-ignores-reverse", ["C04"], "break", N, "Node.sort_children", "cl.sort(key=key, reverse=reverse)", "cl.sort(key=key)", ["FRAME"])
V("c04-setdata-falsy-prefix", ["C04", "C02"], "break", N, "Node.set_data", "        if new_data_id is not None:\n", "        if new_data_id:\n", ["FALSY"])
V("c04-move-no-parent", ["C04", "C01"], "break", N, "Node.move_to", "        self._parent = new_parent\n", "", ["MUST"])
V("c04-before-by-equality", ["C04"], "break", N, "Node.add_child", "_index_of(children, before)", "children.index(before)", ["ID-EQ"])
V("c04-setdata-all-clones", ["C04"], "break", N, "Node.set_data", "            if with_clones:\n                for n in cur_nodes:\n                    n._data = data\n",
  "            if True:\n                for n in cur_nodes:\n                    n._data = data\n", ["FRAME"])
V("c04-keep-kw-order", ["C04"], "keep", N, "Node.append_child", "child, before=None, deep=deep, data_id=data_id, node_id=node_id", "child, deep=deep, before=None, node_id=node_id, data_id=data_id")
V("c04-keep-system-root", ["C04", "C01"], "keep", T, "Tree.clear", "self._root.remove_children()", "self.system_root.remove_children()")

# ------------------------------------------------------------------ C05
V("c05-save-drops-compression", ["C05"], "break", T, "Tree.save", "target, compression=compression", "target", ["FMT", "KWARGS-FWD"])
V("c05-save-crossed-maps", ["C05"], "break", T, "Tree.save", "                    key_map=key_map,\n                    value_map=value_map,\n                )\n        # target", "                    key_map=value_map,\n                    value_map=key_map,\n                )\n        # target", ["KWARGS-FWD"])
V("c05-typed-save-prefix", ["C05"], "break", TT, "TypedTree.save", "        compression: bool | int = False,\n", "", ["LSP-SIG"], more=[(TT, "TypedTree.save", "                compression=compression,\n", "")])
V("c05-zip-truthiness", ["C05"], "break", C, "open_as_compressed_output_stream", "if compression is False:", "if not compression:", ["FMT"])
V("c05-no-flush", ["C05"], "break", C, "open_as_compressed_output_stream", "                wrapper.flush()\n", "", ["FMT"])
V("c05-uncompress-short-key", ["C05", "C12"], "break", T, "Tree._uncompress_entry", "value_map[long_key][value]", "value_map[key][value]", ["FMT"])
V("c05-clone-ref-ignores-kind", ["C05", "C12"], "break", N, "Node.to_list_iter", "if node_kind == clone_kind:", "if True:", ["FMT"])
V("c05-reader-clone-by-data", ["C05", "C12"], "break", T, "Tree._from_list", "parent.add(first_clone, data_id=first_clone.data_id)", "parent.add(first_clone.data)", ["FMT"])
V("c05-typed-entry-prefix", ["C05", "C12"], "break", TT, "TypedNode._make_list_entry", "            if node._data_id != hash(node_data):\n                data[\"data_id\"] = node._data_id\n", "", ["SIB-ENTRY"])
V("c05-str-entry-prefix", ["C05", "C12"], "break", T, "Tree.deserialize_mapper", "        if \"str\" in data and len(data) <= 2:", "        if False:", ["KEYS"],
  more=[(T, "Tree.deserialize_mapper", "            return data[\"str\"]\n", "            return data\n")])
V("c05-fs-keymap-collision", ["C05", "C19"], "break", "fs.py", "FileSystemTree", "    DEFAULT_KEY_MAP = {}  # don't replace 's' with 'str'\n", "", ["FMT"])
V("c05-load-no-filemeta", ["C05", "C12"], "break", T, "Tree.load", "            file_meta.update(obj[\"meta\"])\n", "            pass\n", ["FMT"])
V("c05-clone-key-prefix", ["C05", "C12"], "break", N, "Node.to_list_iter", "data_id = node._data_id", "data_id = self._tree.calc_data_id(node_data)", ["FMT", "DATAID-DEF"])
V("c05-typed-load-prefix", ["C05"], "break", TT, "TypedTree.load", "        auto_uncompress: bool = True,\n", "", ["LSP-SIG"], more=[(TT, "TypedTree.load", "            auto_uncompress=auto_uncompress,\n", "")])
V("c05-keep-rename-header", ["C05", "C12"], "keep", T, "Tree.save", "header", "hdr", all=True)
V("c05-keep-rename-invmap", ["C05", "C12"], "keep", T, "Tree.load", "inverse_key_map", "inv_map", all=True)
V("c05-keep-rename-compress-locals", ["C05", "C12"], "keep", N, "Node._compress_entry", "short_key", "sk", all=True)

# ------------------------------------------------------------------ C06
V("c06-post-emits-first", ["C06"], "break", N, "Node._iter_post", "            yield from c._iter_post()\n            yield c\n", "            yield c\n            yield from c._iter_post()\n", ["ORDER-TRAV"])
V("c06-visit-pre-ignores-skip", ["C06"], "break", N, "Node._visit_pre", "        if call_traversal_cb(callback, self, memo) is False:\n            return\n", "        call_traversal_cb(callback, self, memo)\n", ["ORDER-TRAV"])
V("c06-visit-level-ignores-skip", ["C06"], "break", N, "Node._visit_level", "                    continue\n", "                    pass\n", ["ORDER-TRAV"])
V("c06-zigzag-wrong-flags", ["C06"], "break", N, "Node._iter_zigzag", "revert=False, toggle=True", "revert=True, toggle=True", ["EXH-1"])
V("c06-level-append-node", ["C06"], "break", N, "Node._iter_level", "next_level.extend(c._children)", "next_level.append(c)", ["ORDER-TRAV"])
V("c06-false-does-not-stop", ["C06"], "break", C, "call_traversal_cb", "        elif res is False:\n            raise StopTraversal\n", "        elif res is False:\n            return False\n", ["EXH-2"])
V("c06-postorder-self-first", ["C06"], "break", N, "Node.iterator", "        if add_self and method == IterMethod.POST_ORDER:\n            yield self\n", "", ["SIB-ITER"],
  more=[(N, "Node.iterator", "        if add_self and method != IterMethod.POST_ORDER:\n", "        if add_self:\n")])
V("c06-visit-drops-value", ["C06"], "break", N, "Node.visit", "            return e.value\n", "            return None\n", ["SIB-ITER"])
V("c06-tree-iterator-drops-method", ["C06"], "break", T, "Tree.iterator", "self._root.iterator(method=method)", "self._root.iterator()", ["EXH-1", "KWARGS-FWD"])
V("c06-walker-renamed", ["C06"], "break", N, "Node", "    def _iter_zigzag_rtl(self)", "    def _iter_zigzagrtl(self)", ["EXH-1"])
V("c06-callback-called-directly", ["C06"], "break", N, "Node._visit_post", "        call_traversal_cb(callback, self, memo)\n", "        callback(self, memo)\n", ["EXH-2", "ORDER-TRAV"])
V("c06-level-no-reset", ["C06"], "break", N, "Node._iter_level", "        while children:\n            next_level = []\n", "        next_level = []\n        while children:\n", ["ORDER-TRAV"])
V("c06-keep-rename-children", ["C06"], "keep", N, "Node._iter_pre", "        children = self._children\n        if children:\n            for c in children:\n", "        kids = self._children\n        if kids:\n            for c in kids:\n")
V("c06-keep-rename-loopvar", ["C06"], "keep", N, "Node._visit_pre", "            for c in children:\n                c._visit_pre(callback, memo)\n", "            for child in children:\n                child._visit_pre(callback, memo)\n")
V("c06-keep-rename-res", ["C06"], "keep", C, "call_traversal_cb", "res", "result", all=True)
V("c06-keep-iter-post-children-attr", ["C06", "C01"], "keep", N, "Node._iter_post", "for c in self.children:", "for c in self._children or ():")

# ------------------------------------------------------------------ C07
V("c07-source-reversed-prefix", ["C07"], "break", N, "Node.add_child", "child._root.children.copy()", "child._root.children", ["PURE"])
V("c07-copy-id-prefix", ["C07", "C05"], "break", N, "Node.add_child", "            data_id = source_node._data_id\n", "", ["COPY-ID"])
V("c07-addfrom-drops-id", ["C07"], "break", N, "Node._add_from", "self.add_child(child.data, data_id=child._data_id)", "self.add_child(child.data)", ["COPY-ID"])
V("c07-share-children", ["C07", "C01"], "break", N, "Node.add_child", "            node._add_from(source_node)\n", "            node._children = source_node._children\n", ["ALIAS-STORE", "MUST", "PAIR-1"])
V("c07-copyto-drops-deep", ["C07"], "break", N, "Node.copy_to", "return target.add_child(self, before=before, deep=deep)", "return target.add_child(self, before=before)", ["KWARGS-FWD"])
V("c07-treecopyto-shallow", ["C07"], "break", T, "Tree.copy_to", "add_self=False, before=None, deep=deep", "add_self=True, before=None, deep=deep", ["SHORTCUT"])
V("c07-addfrom-twice", ["C07"], "break", N, "Node._add_from", "                new_child._add_from(child, predicate=None)\n", "                new_child._add_from(child, predicate=None)\n                new_child._add_from(child, predicate=None)\n", ["COPY-LINEAR"])
V("c07-copy-touches-source-meta", ["C11"], "break", "diff.py", "_copy_children", "            n_dest.set_meta(*meta)\n", "            n.set_meta(*meta)\n", ["PURE"])
V("c07-keep-rename-newchild", ["C07"], "keep", N, "Node._add_from", "new_child", "nc", all=True)
V("c07-keep-rename-newtree", ["C07", "C18"], "keep", T, "Tree.copy", "new_tree", "t2", all=True)

# ------------------------------------------------------------------ C08
V("c08-select-not-kept", ["C08"], "break", N, "Node.filter", "                    # Unconditionally keep whole branch: no need to visit children\n                    must_keep = True\n",
  "                    # Unconditionally keep whole branch: no need to visit children\n                    pass\n", ["SIB-FILTER"])
V("c08-copy-select-no-branch", ["C08"], "break", N, "Node._add_filtered", "                    p._add_from(n)\n", "                    pass\n", ["SIB-FILTER"])
V("c08-copy-no-pop", ["C08"], "break", N, "Node._add_filtered", "                parent_stack.pop()\n", "", ["COPY-LINEAR"])
V("c08-predicate-raise-lost", ["C08"], "break", C, "call_predicate", "    except IterationControl as e:\n        return e  #", "    except IterationControl as e:\n        return None  #", ["EXH-2"])
V("c08-filter-stop-ignored", ["C08"], "break", N, "Node.filter", "                elif isinstance(res, StopTraversal):\n                    raise res\n", "", ["SIB-FILTER"])
V("c08-filtered-drops-predicate", ["C08"], "break", T, "Tree.filtered", "return self.copy(predicate=predicate)", "return self.copy()", ["KWARGS-FWD", "SHORTCUT"])
V("c08-skip-keepself-no-ancestors", ["C08"], "break", N, "Node.filter", "                        remove_nodes.extend(n.children)\n                        must_keep = True\n", "                        remove_nodes.extend(n.children)\n", ["SIB-FILTER"])
V("c08-predicate-called-directly", ["C08"], "break", N, "Node.filter", "res = call_predicate(predicate, n)", "res = predicate(n)", ["EXH-2", "SIB-FILTER"])
V("c08-keep-rename-acc", ["C08", "C01"], "keep", N, "Node.filter", "remove_nodes", "to_remove", all=True)
V("c08-keep-rename-p", ["C08", "C07"], "keep", N, "Node._add_filtered._visit", "                    p = _create_parents()\n                    p._add_from(n)\n", "                    pp = _create_parents()\n                    pp._add_from(n)\n")

# ------------------------------------------------------------------ C09
V("c09-limit-off-by-one", ["C09"], "break", N, "Node._search", "count >= max_results", "count > max_results", ["LIMIT"])
V("c09-prefix-match", ["C09"], "break", N, "Node._search", "            pattern = re.compile(pattern=match)\n            cb_match = lambda node: pattern.fullmatch(node.name)", "            pattern = re.compile(pattern=match)\n            cb_match = lambda node: pattern.match(node.name)", ["REGEX-FULL"])
V("c09-findall-falsy-prefix", ["C09", "C02"], "break", N, "Node.find_all", "        if data is not None:\n", "        if data:\n", ["FALSY"])
V("c09-getitem-none", ["C09"], "break", T, "Tree.__getitem__", "            raise KeyError(f\"{data!r}\")\n", "            return None\n", ["EXH-5"])
V("c09-findfirst-unlimited", ["C09"], "break", N, "Node.find_first", ", max_results=1)", ")", ["LIMIT"])
V("c09-search-level-order", ["C09"], "break", N, "Node._search", "self.iterator(add_self=add_self)", "self.iterator(IterMethod.LEVEL_ORDER, add_self=add_self)", ["SEARCH"])
V("c09-findall-ignores-limit-prefix", ["C09"], "break", N, "Node.find_all", "            return res[:max_results] if max_results else res\n", "            return res\n", ["LIMIT"])
V("c09-getitem-data-before-id", ["C09", "C02"], "break", T, "Tree.__getitem__", "            res = self.find_all(data_id=data)\n        else:\n            res = self.find_all(data)\n", "            res = self.find_all(data)\n        else:\n            res = self.find_all(data_id=data)\n", ["EXH-5"])
V("c09-keep-rename-count", ["C09"], "keep", N, "Node._search", "count", "found", all=True)
V("c09-keep-elif-to-if", ["C09"], "keep", T, "Tree.__getitem__", "        elif len(res) > 1:\n", "        if len(res) > 1:\n")

# ------------------------------------------------------------------ C10
V("c10-getindex-prefix", ["C10"], "break", N, "Node.get_index", "_index_of(self._parent._children, self)", "self._parent._children.index(self)", ["ID-EQ"])
V("c10-islast-wrong-end", ["C10"], "break", N, "Node.is_last_sibling", "self._parent._children[-1]", "self._parent._children[0]", ["PARENT-WALK"])
V("c10-depth-off-by-one", ["C10"], "break", N, "Node.calc_depth", "        depth = 0\n", "        depth = 1\n", ["PARENT-WALK"])
V("c10-descendant-by-equality", ["C10"], "break", N, "Node.is_descendant_of", "if parent is other:", "if parent == other:", ["PARENT-WALK"])
V("c10-parent-never-none", ["C10"], "break", N, "Node.parent", "return p if p._parent else None", "return p", ["PARENT-WALK"])
V("c10-siblings-by-equality", ["C10"], "break", N, "Node.get_siblings", "if n is not self", "if n != self", ["PARENT-WALK"])
V("c10-query-mutates", ["C10"], "break", N, "Node.get_parent_list", "        res = []\n", "        res = []\n        self._meta = None\n", ["PURE"])
V("c10-keep-rename-pe", ["C10"], "keep", N, "Node.calc_depth", "pe", "anc", all=True)
V("c10-keep-rename-root", ["C10"], "keep", N, "Node.get_top", "root", "top", all=True)

# ------------------------------------------------------------------ C11
V("c11-swapped-inputs", ["C11"], "break", "diff.py", "diff_tree", "compare(t0._root, t1._root, t2._root)", "compare(t1._root, t0._root, t2._root)", ["DIFF"])
V("c11-removed-marked-added", ["C11"], "break", "diff.py", "diff_tree.compare", "c2.set_meta(\"dc\", DC.REMOVED)", "c2.set_meta(\"dc\", DC.ADDED)", ["DIFF"])
V("c11-order-marks-always", ["C11"], "break", "diff.py", "diff_tree.compare", "                if ordered:\n", "                if True:\n", ["DIFF"])
V("c11-marks-source", ["C11"], "break", "diff.py", "_copy_children", "            n_dest.set_meta(*meta)\n", "            n.set_meta(*meta)\n", ["PURE"])
V("c11-reduce-wrong-key", ["C11"], "break", "diff.py", "diff_tree", "node.get_meta(\"dc\")", "node.get_meta(\"dc_\")", ["DIFF"])
V("c11-added-by-first-side", ["C11"], "break", "diff.py", "diff_tree.compare", "        for c1 in p1.children:  #", "        for c1 in p0.children:  #", ["DIFF"])
V("c11-keep-rename-added", ["C11"], "keep", "diff.py", "diff_tree", "removed_nodes", "removed", all=True)

# ------------------------------------------------------------------ C12
V("c12-writer-zero-based", ["C12", "C05"], "break", N, "Node.to_list_iter", "enumerate(self, 1)", "enumerate(self)", ["FMT"])
V("c12-all-zero-based", ["C12", "C05"], "break", N, "Node.to_list_iter", "enumerate(self, 1)", "enumerate(self, 0)", ["FMT"],
  more=[(T, "Tree._from_list", "enumerate(obj, 1)", "enumerate(obj, 0)"), (TT, "TypedTree._from_list", "enumerate(obj, 1)", "enumerate(obj, 0)")])
V("c12-generator-key-renamed-both", ["C12"], "break", T, "Tree.save", "\"$generator\"", "\"$gen\"", ["KEYS"], more=[(T, "Tree.load", "\"$generator\"", "\"$gen\"", True)])
V("c12-load-accepts-missing-nodes", ["C12"], "break", T, "Tree.load", "            or \"nodes\" not in obj\n", "", ["FMT"])
V("c12-root-index-one", ["C12", "C05"], "break", N, "Node.to_list_iter", "parent_id_map = {self._node_id: 0}", "parent_id_map = {self._node_id: 1}", ["FMT"])
V("c12-typed-keymap-changed", ["C12"], "break", TT, "TypedTree", "DEFAULT_KEY_MAP = {\"data_id\": \"i\", \"str\": \"s\", \"kind\": \"k\"}", "DEFAULT_KEY_MAP = {\"data_id\": \"i\", \"str\": \"s\", \"kind\": \"t\"}", ["FMT"])
V("c12-keep-rename-idgen", ["C12", "C05"], "keep", N, "Node.to_list_iter", "id_gen", "pos", all=True)

# ------------------------------------------------------------------ C13
V("c13-typed-init-prefix", ["C13"], "break", TT, "TypedNode.__init__",
  "        assert isinstance(kind, str) and kind != ANY_KIND, f\"Unsupported `kind`: {kind}\"\n        self._kind = kind\n        super().__init__(\n            data, parent=parent, data_id=data_id, node_id=node_id, meta=meta\n        )\n",
  "        super().__init__(\n            data, parent=parent, data_id=data_id, node_id=node_id, meta=meta\n        )\n        assert isinstance(kind, str) and kind != ANY_KIND, f\"Unsupported `kind`: {kind}\"\n        self._kind = kind\n", ["ORDER-VBM"])
V("c13-sort-validates-late", ["C13"], "break", N, "Node.sort_children", "        cl.sort(key=key, reverse=reverse)\n", "        cl.sort(key=key, reverse=reverse)\n        if reverse not in (True, False):\n            raise ValueError(\"reverse must be bool\")\n", ["ORDER-VBM"])
V("c13-setdata-check-after-write", ["C13"], "break", N, "Node.set_data", "        if has_clones and with_clones is None:\n            raise AmbiguousMatchError(\n                \"set_data() for clones requires `with_clones` decision\"\n            )\n", "",
  ["ORDER-VBM", "FRAME"], more=[(N, "Node.set_data", "        return\n", "        if has_clones and with_clones is None:\n            raise AmbiguousMatchError(\"late\")\n        return\n")])
V("c13-callback-in-critical-section", ["C13"], "break", N, "Node.set_data", "                    self._data_id = new_data_id\n                    if new_data is not None:\n                        self._data = new_data\n            else:",
  "                    self._data_id = tree.calc_data_id(data)\n                    if new_data is not None:\n                        self._data = new_data\n            else:", ["CB-CRIT", "PAIR-3"])
V("c13-keep-rename-target", ["C13", "C04"], "keep", N, "Node.move_to", "target_siblings", "dest", all=True)

# ------------------------------------------------------------------ C14
V("c14-dict-key-renamed", ["C14"], "break", N, "Node.to_dict", "res[\"data_id\"] = self._data_id", "res[\"id\"] = self._data_id", ["KEYS", "FMT"])
V("c14-dictlist-prefix", ["C14"], "break", T, "Tree.to_dict_list", "for n in self._root.children:", "for n in self._root._children:", ["OPT-DEREF"])
V("c14-fromdict-drops-id", ["C14"], "break", N, "Node.from_dict", "data_id=item.get(\"data_id\"), ", "", ["FMT"])
V("c14-dictlist-unlocked", ["C14", "C18"], "break", T, "Tree.to_dict_list", "        with self:\n", "        if True:\n", ["LOCK"])
V("c14-todict-skips-children", ["C14"], "break", N, "Node.to_dict", "                cl.append(n.to_dict(mapper=mapper))\n", "                cl.append(n.to_dict())\n", ["FMT", "KWARGS-FWD"])
V("c14-keep-rename-cl", ["C14"], "keep", N, "Node.to_dict", "cl", "kids", all=True)

# ------------------------------------------------------------------ C15
V("c15-has-children-prefix", ["C15"], "break", TT, "TypedNode.has_children", "> 0", "> 1", ["EXIST-CMP"])
V("c15-next-sibling-prefix", ["C15"], "break", TT, "TypedNode.next_sibling", "own_idx < pc_len - 1", "own_idx < pc_len - 2", ["RANGE-GUARD"])
V("c15-get-index-prefix", ["C15"], "break", TT, "TypedNode.get_index", "self._parent.get_children(self.kind)", "self.parent.get_children(self.kind)", ["OPT-DEREF"])
V("c15-children-wrong-filter", ["C15"], "break", TT, "TypedNode.get_children", "n._kind == kind", "n._kind != kind", ["KIND-BRANCH"])
V("c15-first-sibling-inverted", ["C15"], "break", TT, "TypedNode.first_sibling", "        if any_kind:\n", "        if not any_kind:\n", ["KIND-BRANCH"])
V("c15-last-child-skips-first", ["C15"], "break", TT, "TypedNode.last_child", "range(len(all_children) - 1, -1, -1)", "range(len(all_children) - 1, 0, -1)", ["KIND-BRANCH"])
V("c15-prev-by-equality", ["C15"], "break", TT, "TypedNode.prev_sibling", "_index_of(pc, self)", "pc.index(self)", ["ID-EQ"])
V("c15-kind-not-set", ["C15", "C01"], "break", TT, "TypedNode.__init__", "        self._kind = kind\n", "", ["MUST"])
V("c15-keep-rename-rel", ["C15"], "keep", TT, "TypedNode.get_siblings", "rel", "own_kind", all=True)
V("c15-keep-rename-pc", ["C15"], "keep", TT, "TypedNode.next_sibling", "pc_len", "n_sib", all=True)

# ------------------------------------------------------------------ C16
V("c16-style-width", ["C16"], "break", C, "<module>", "\"round43\": (\"    \", \"│   \",", "\"round43\": (\"    \", \"│  \",", ["RENDER"])
V("c16-indent-swapped", ["C16"], "break", N, "Node._get_prefix", "                parts.append(s0)  #", "                parts.append(s1)  #", ["RENDER"])
V("c16-kind-sensitive-last", ["C16"], "break", N, "Node._get_prefix", "            return p is p._parent._children[-1]\n", "            return p.is_last_sibling()\n", ["RENDER"])
V("c16-lstrip-off", ["C16"], "break", N, "Node._render_lines", "            lstrip += 1\n", "            lstrip += 2\n", ["RENDER"])
V("c16-title-false-keeps-root", ["C16"], "break", T, "Tree.format_iter", "add_self=has_title", "add_self=True", ["RENDER", "KWARGS-FWD"])
V("c16-compact-ignores-children", ["C16"], "break", N, "Node._get_prefix", "                    parts.append(s4)  #", "                    parts.append(s2)  #", ["RENDER"])
V("c16-format-drops-style", ["C16"], "break", N, "Node.format", "self.format_iter(repr=repr, style=style, add_self=add_self)", "self.format_iter(repr=repr, add_self=add_self)", ["KWARGS-FWD"])
V("c16-keep-rename-parts", ["C16"], "keep", N, "Node._get_prefix", "parts", "segs", all=True)

# ------------------------------------------------------------------ C17
V("c17-dot-skips-all-root-edges", ["C17"], "break", "dot.py", "node_to_dot", "if not add_self and n._parent is node:", "if not add_self:", ["SIB-EXPORT"])
V("c17-mermaid-key-swapped", ["C17"], "break", "mermaid.py", "_node_to_mermaid_flowchart_iter", "return n._data_id if unique_nodes else n._node_id", "return n._node_id if unique_nodes else n._data_id", ["SIB-EXPORT"])
V("c17-rdf-truthiness-prefix", ["C17"], "break", "rdf.py", "_add_child_node", "if parent_graph_node is not None:", "if parent_graph_node:", ["OPT-TRUTH"])
V("c17-typed-dot-no-label", ["C17"], "break", TT, "TypedNode.to_dot", "edge_mapper=_edge_mapper,", "edge_mapper=edge_mapper,", ["SIB-EXPORT"])
V("c17-tree-dot-always-root", ["C17"], "break", T, "Tree.to_dot", "add_self=add_root,", "add_self=True,", ["KWARGS-FWD"])
V("c17-rdf-no-parent", ["C17"], "break", "rdf.py", "_add_child_nodes", "parent_graph_node=graph_node,", "parent_graph_node=None,", ["SIB-EXPORT"])
V("c17-mermaid-unique-dropped", ["C17"], "break", N, "Node.to_mermaid_flowchart", "            unique_nodes=unique_nodes,\n", "", ["KWARGS-FWD"])
V("c17-keep-rename-used", ["C17"], "keep", "dot.py", "node_to_dot", "used_keys", "seen", all=True)

# ------------------------------------------------------------------ C18
V("c18-copy-unlocked", ["C18"], "break", T, "Tree.copy", "        with self:\n", "        if True:\n", ["LOCK"])
V("c18-exit-no-release", ["C18"], "break", T, "Tree.__exit__", "        self._lock.release()\n", "        pass\n", ["LOCK"])
V("c18-plain-lock", ["C18"], "break", T, "Tree.__init__", "threading.RLock()", "threading.Lock()", ["LOCK"])
V("c18-dotfile-unlocked", ["C18"], "break", "dot.py", "tree_to_dotfile", "    with tree:\n", "    if True:\n", ["LOCK"])
V("c18-typed-save-prefix", ["C18"], "break", TT, "TypedTree.save", "        with self:\n", "        if True:\n", ["LOCK"])
V("c18-save-unlocked", ["C18"], "break", T, "Tree.save", "        with self:\n", "        if True:\n", ["LOCK"])
V("c18-enter-nonblocking", ["C18"], "break", T, "Tree.__enter__", "self._lock.acquire()", "self._lock.acquire(blocking=False)", ["LOCK"])
V("c18-copyto-unlocked", ["C18"], "break", T, "Tree.copy_to", "        with self:\n", "        if True:\n", ["LOCK"])
V("c18-exit-swallows", ["C18"], "break", T, "Tree.__exit__", "        return\n", "        return True\n", ["LOCK"])
V("c18-keep-more-under-lock", ["C18", "C07"], "keep", T, "Tree.copy", "        new_tree = Tree(name)\n        with self:\n            new_tree._root._add_from", "        with self:\n            new_tree = Tree(name)\n            new_tree._root._add_from")
V("c18-keep-rename-res", ["C18"], "keep", T, "Tree.save", "            res = {", "            doc = {", more=[(T, "Tree.save", "json.dump(res,", "json.dump(doc,")])

# ------------------------------------------------------------------ C19
V("c19-dirs-first", ["C19"], "break", "fs.py", "load_tree_from_fs",
  "            for o in sorted(files, key=attrgetter(\"name\")):\n                node.add(o)\n", "", ["FS"],
  more=[("fs.py", "load_tree_from_fs", "                visit(pn, c)\n            return\n", "                visit(pn, c)\n            for o in sorted(files, key=attrgetter(\"name\")):\n                node.add(o)\n            return\n")])
V("c19-size-mtime-crossed", ["C19"], "break", "fs.py", "load_tree_from_fs", "                    o = FileSystemEntry(c.name, size=stat.st_size, mdate=stat.st_mtime)\n                    files.append(o)", "                    o = FileSystemEntry(c.name, size=stat.st_mtime, mdate=stat.st_size)\n                    files.append(o)", ["FS"])
V("c19-unsorted-flat", ["C19"], "break", "fs.py", "load_tree_from_fs", "                pn = node.add(o)\n                visit(pn, c)\n            elif", "                pn = node.add(o)\n                visit(node, c)\n            elif", ["FS"])
V("c19-mapper-key", ["C19", "C05"], "break", "fs.py", "FileSystemTree.serialize_mapper", "\"s\": inst.size", "\"z\": inst.size", ["KEYS", "FS"])
V("c19-sorted-falls-through", ["C19"], "break", "fs.py", "load_tree_from_fs", "                visit(pn, c)\n            return\n", "                visit(pn, c)\n", ["FS"])
V("c19-keep-rename-files", ["C19"], "keep", "fs.py", "load_tree_from_fs", "files", "file_entries", all=True)

# ------------------------------------------------------------------ C20
V("c20-value-no-skip", ["C20"], "break", "tree_generator.py", "ValueRandomizer.generate", "        if self._skip_value():\n            return\n", "", ["GEN"])
V("c20-merge-order", ["C20"], "break", "tree_generator.py", "_merge_specs", "    res.update(types.get(node_type, {}))\n    res.update(spec)\n", "    res.update(spec)\n    res.update(types.get(node_type, {}))\n", ["GEN"])
V("c20-no-kind", ["C20"], "break", "tree_generator.py", "_make_tree", "parent_node.add_child(node_data, kind=node_type)", "parent_node.add_child(node_data)", ["GEN"])
V("c20-zero-based", ["C20"], "break", "tree_generator.py", "_make_tree", "            i += 1  # 1-based\n", "", ["GEN"])
V("c20-pop-while-iterating", ["C20"], "break", "tree_generator.py", "_resolve_random_dict", "                remove.append(key)\n", "                d.pop(key)\n", ["ITER-INV", "GEN"])
V("c20-hardcoded-class", ["C20"], "break", "tree_generator.py", "build_random_tree", "tree: TTree = tree_class(", "tree: TTree = TypedTree(", ["GEN"])
V("c20-keep-rename-p", ["C20"], "keep", "tree_generator.py", "_make_tree", "node_data", "obj", all=True)

# ------------------------------------------------------------------ structural keep-variants (refactorings)
V("k-init-inverted-if", ["C02", "C01", "C07"], "keep", N, "Node.__init__",
  "        if data_id is None:\n            self._data_id: DataIdType = tree.calc_data_id(data)\n        else:\n            self._data_id: DataIdType = data_id\n",
  "        if data_id is not None:\n            self._data_id: DataIdType = data_id\n        else:\n            self._data_id: DataIdType = tree.calc_data_id(data)\n")
V("k-remove-extract-unlink", ["C01", "C04", "C13", "C08"], "keep", N, "Node",
  "    def remove_children(self) -> None:\n",
  "    def _unlink(self) -> None:\n        siblings = self._parent._children\n        siblings.pop(_index_of(siblings, self))  # type: ignore\n        if not siblings:  # store None instead of `[]`\n            self._parent._children = None\n\n    def remove_children(self) -> None:\n",
  more=[(N, "Node.remove", "        pc = self._parent._children\n        pc.pop(_index_of(pc, self))  # type: ignore\n        if not pc:  # store None instead of `[]`\n            pc = self._parent._children = None\n", "        self._unlink()\n")])
V("k-register-get-form", ["C01", "C02", "C03"], "keep", T, "Tree._register",
  "        try:\n            clone_list = self._nodes_by_data_id[node._data_id]  # may raise KeyError\n            for clone in clone_list:\n                if clone.parent is node.parent:\n                    del self._node_by_id[node._node_id]\n                    raise UniqueConstraintError(\"Node.data already exists in parent\")\n            clone_list.append(node)\n        except KeyError:\n            self._nodes_by_data_id[node._data_id] = [node]\n",
  "        clone_list = self._nodes_by_data_id.get(node._data_id)\n        if clone_list is None:\n            self._nodes_by_data_id[node._data_id] = [node]\n            return\n        for clone in clone_list:\n            if clone.parent is node.parent:\n                del self._node_by_id[node._node_id]\n                raise UniqueConstraintError(\"Node.data already exists in parent\")\n        clone_list.append(node)\n")
V("k-setmeta-early-return", ["C04"], "keep", N, "Node.set_meta",
  "        if value is None:\n            self.clear_meta(key)\n        elif self._meta is None:\n            self._meta = {key: value}\n        else:\n            self._meta[key] = value\n",
  "        if value is None:\n            self.clear_meta(key)\n            return\n        if self._meta is None:\n            self._meta = {key: value}\n            return\n        self._meta[key] = value\n")
V("k-findall-one-expression", ["C02", "C09"], "keep", T, "Tree.find_all",
  "            if res:\n                # Return a copy: the caller must not modify the internal clone list\n                return res[:max_results] if max_results else res.copy()\n            return []\n",
  "            if not res:\n                return []\n            return res[:max_results] if max_results else list(res)\n")
V("k-iterpre-property", ["C06", "C01"], "keep", N, "Node._iter_pre",
  "        children = self._children\n        if children:\n            for c in children:\n                yield c\n                yield from c._iter_pre()\n",
  "        for c in self.children:\n            yield c\n            yield from c._iter_pre()\n")
V("k-filter-explicit-none-false", ["C08", "C01"], "keep", N, "Node.filter", "if res in (None, False):  # Keep only", "if res is None or res is False:  # Keep only")
V("k-save-doc-two-steps", ["C05", "C12", "C18"], "keep", T, "Tree.save",
  "            res = {\n                \"meta\": header,\n                \"nodes\": list(\n                    self.to_list_iter(\n                        mapper=mapper, key_map=key_map, value_map=value_map\n                    )\n                ),\n            }\n",
  "            node_list = list(\n                self.to_list_iter(mapper=mapper, key_map=key_map, value_map=value_map)\n            )\n            res = {\"meta\": header, \"nodes\": node_list}\n")
V("k-descendant-for-loop", ["C10"], "keep", N, "Node.is_descendant_of",
  "        parent = self._parent\n        while parent is not None and parent._parent is not None:\n            if parent is other:\n                return True\n            parent = parent._parent\n        return False\n",
  "        for parent in self.get_parent_list():\n            if parent is other:\n                return True\n        return False\n")
V("k-moveto-local-parent", ["C01", "C03", "C04", "C13"], "keep", N, "Node.move_to",
  "        pc = self._parent._children\n        pc.pop(_index_of(pc, self))  # type: ignore\n        if not self._parent._children:  # store None instead of `[]`\n            self._parent._children = None\n        self._parent = new_parent\n",
  "        old_parent = self._parent\n        pc = old_parent._children\n        pc.pop(_index_of(pc, self))  # type: ignore\n        if not pc:  # store None instead of `[]`\n            old_parent._children = None\n        self._parent = new_parent\n")
V("k-tolistiter-inline-parent", ["C05", "C12"], "keep", N, "Node.to_list_iter",
  "            parent_id = node._parent._node_id\n            parent_idx = parent_id_map[parent_id]\n", "            parent_idx = parent_id_map[node._parent._node_id]\n")
V("k-typed-getchildren-comprehension", ["C15"], "keep", TT, "TypedNode.get_children",
  "        return list(filter(lambda n: n._kind == kind, all_children))\n", "        return [n for n in all_children if n._kind == kind]\n")
V("k-dot-key-inline", ["C17"], "keep", "dot.py", "node_to_dot",
  "        if unique_nodes:\n            key = n._data_id\n            if key in used_keys:\n                continue\n            used_keys.add(key)\n        else:\n            key = n._node_id\n",
  "        key = _key(n)\n        if unique_nodes:\n            if key in used_keys:\n                continue\n            used_keys.add(key)\n")
V("k-format-iter-local", ["C16"], "keep", N, "Node._render_lines", "            prefix = n._get_prefix(style, lstrip)\n", "            pre = n._get_prefix(style, lstrip)\n",
  more=[(N, "Node._render_lines", "            yield prefix + s\n", "            yield pre + s\n")])
V("k-copy-lock-early", ["C18", "C07"], "keep", T, "Tree.copy_to", "        with self:\n            self._root.copy_to(target, add_self=False, before=None, deep=deep)\n",
  "        root = self._root\n        with self:\n            root.copy_to(target, add_self=False, before=None, deep=deep)\n")
