"""Property table: what is decided statically per property, and what is not.

Importing this module registers all rules."""
from __future__ import annotations

from .rules import (  # noqa: F401
    calls,
    export,
    extra,
    fmt,
    lock,
    misc,
    order,
    own,
    pair,
    sib,
    trav,
    values,
)

#: hand-confirmed floors for the units analysed (fail closed below)
UNIT_FLOORS = {"modules": 11, "classes": 26, "functions": 235, "call_sites": 680}
#: weakly (name-only) resolved call sites tolerated
MAX_WEAK_SITES = 3

_COMMON_ASSUME = [
    "static analysis of /repo/nutree/*.py only; nothing is imported or executed",
    "the claim is the conjunction of the listed structural clauses, each a necessary condition of the property; "
    "the behaviour over runtime values is NOT decided",
    "no monkey-patching, no out-of-package subclasses, no object.__setattr__ / __dict__ tricks",
    "user callbacks do not mutate the tree; user data objects are not Node/Tree instances",
    "callee resolution is nominal (annotations, MRO, frozen supplement tables); flow-insensitive aliasing refined by reaching definitions",
]


def _p(explanation: str, not_decided: str, extra=()):
    return {"explanation": explanation, "not_decided": not_decided, "assumptions": _COMMON_ASSUME + list(extra)}


PROPS = {
    "C01": _p(
        "Inductive skeleton of the tree invariant. OWN-1 closes the set of writers of the structural fields (only the "
        "Node family and Tree.__init__/_register/_unregister write them; a synthetic foreign writer is detected on every run). "
        "MUST/PAIR-1: on every normal CFG path linking is paired with registration (Node.__init__ sets all fields and calls "
        "_register after the keys are set; add_child links the constructed node before returning it; only freshly constructed "
        "nodes - or self after being unlinked, in move_to - are inserted into a child list) and unlinking with complete, "
        "children-first unregistration (remove, remove_children with a post-order walk, clear, del, filter). REG-CHK: node-id "
        "membership is tested before the id map is written and a refusal rolls the map back. UNREG-SHAPE: identity removal. "
        "ID-EQ: a node is taken out of a child list by identity, not ==. GUARD-CYCLE: re-parenting is dominated by an ancestry "
        "refusal. ITER-INV/ACC-REBIND: no live child list is changed while iterated.",
        "that the guards' conditions are right for every tree shape, list.sort's permutation property, concrete histories",
    ),
    "C02": _p(
        "Index exactness clauses. OWN-1 for both maps and _data/_data_id; MUST (_register stores and appends, _unregister "
        "deletes); PAIR-3 (every re-key in set_data leaves the old slot and enters exactly the new key first, on every branch); "
        "UNREG-SHAPE (identity pop with the matching index, emptied slot deleted, keys read before being nulled); ID-EQ on "
        "clone lists; ESCAPE (no public API returns index storage); LIMIT on the index path; FALSY (falsy ids/data are ordinary "
        "values); DATAID-DEF (explicit id, else callback, else hash; calc_data_id called only where an id must be derived; clone "
        "queries read the node's own slot); EXH-5 (lookups read the index under the computed id); PURE for the lookups.",
        "hash collisions, user __eq__/__hash__, the lists' contents for a concrete history",
    ),
    "C03": _p(
        "GUARD-UNIQ over every route, found by effect not by name: every write of a registered node's _parent or _data_id is "
        "dominated by a refusal that can raise UniqueConstraintError; new nodes reach _register (MUST, PAIR-1). REG-CHK fixes "
        "the refusal in _register: the clone list is scanned comparing parents by identity, raises the library's error, before "
        "the append. SIB-ADD: both add_child pre-checks test `source._parent is self`.",
        "that `clone.parent is node.parent` is the right comparison for every shape (read once by hand)",
    ),
    "C04": _p(
        "Frame and plumbing only. FRAME: each mutator's write set stays inside its documented footprint; metadata API cases; "
        "sort in place with the caller's key/direction; set_data touches clones only under with_clones. KWARGS-FWD + SHORTCUT: "
        "the shortcuts call the primitive on the documented receiver with the documented position. CALL-BIND/UNCALLED/LSP-SIG: "
        "those calls bind and pass values, not bound methods. SIB-ADD: the `before` dispatch of both add_child implementations "
        "(None->append, True->0, int->insert, node->insert at its position). MUST: the returned node is linked; move_to "
        "unlinks, re-parents, links. ID-EQ at index(before). FALSY in set_data/add_child. PAIR-3. ALIAS-STORE for _meta.",
        "positions and orders as values for every shape x argument, sort results, equality with an executable specification "
        "(the largest undecided remainder of any property)",
    ),
    "C05": _p(
        "Option plumbing and key agreement. KWARGS-FWD on save/load (path and stream branch) and the typed overrides; LSP-SIG "
        "(TypedTree accepts every storage option of Tree); FMT: compression is False is the only non-zip case, the zip method is "
        "forwarded, the text wrapper is flushed, maps written to the header are the ones applied, compress/uncompress mirrored "
        "under the long key, clone references under equal kind and keyed by _data_id, readers re-create clones through the index "
        "map keeping data_id and kind, default key maps injective and collision-free with the class's mapper; KEYS (every entry "
        "key written is read by the matching loader); SIB-ENTRY (custom data_id on every entry path); SIB-ADD (the reader can "
        "place a clone below a sibling of its first occurrence); CLS-HARD (cls() in both _from_list); COPY-ID; PURE for save.",
        "equality of the loaded tree with the saved one, user mappers, zip/JSON library behaviour, unicode",
    ),
    "C06": _p(
        "EXH-1 (method table complete, unsupported methods refused, rtl/zigzag flags, Tree.iterator serves UNORDERED/RANDOM from "
        "the id map); ORDER-TRAV (pre = emit then descend, post = descend then emit, one emission and one descent per child; level "
        "walkers emit each level once, build the next from each node's children in order, reset it, flip direction once per level; "
        "skip verdicts cut the descent); SIB-ITER (iterator and visit agree on where the start node goes; one StopTraversal handler "
        "around everything returning its value); EXH-2 (normaliser covers every returned/raised control value; callbacks invoked "
        "only through it); KWARGS-FWD Tree.visit/iterator; PURE for all walkers.",
        "the order as a sequence for concrete trees; random.shuffle",
    ),
    "C07": _p(
        "PURE w.r.t. the source for every copy route (including the source's child order); PAIR-1 (only constructed nodes are "
        "linked: no source node enters the target); ALIAS-STORE (no node's _children/_meta is bound to another's container); "
        "COPY-ID (the source's data_id - and kind in typed code - travels with the data); CLS-HARD (copies instantiate the "
        "receiver's class); COPY-LINEAR (_add_from copies and recurses once per child in order); SIB-ADD; KWARGS-FWD/SHORTCUT on "
        "copy/copy_to; MUST (deep copies recurse through _add_from).",
        "equality of shapes; later histories beyond 'no shared mutable container'",
    ),
    "C08": _p(
        "EXH-2 for call_predicate; SIB-FILTER (both implementations realise the user guide's verdict table, and the same one; "
        "predicate evaluated once per child; StopTraversal caught once at the top, nothing undone); ITER-INV, ACC-REBIND, "
        "COPY-LINEAR (a node is copied at most once per visit); MUST (in-place removals go through remove()); KWARGS-FWD "
        "(filtered == copy(predicate=)); PURE for the copying form w.r.t. the source; DIFF reduce uses filter.",
        "the kept set as a value for a concrete predicate",
    ),
    "C09": _p(
        "LIMIT (slice direction, every returned list honours max_results, the generator counts before testing >=, find_first asks "
        "for one and returns res[0] or None); FALSY; REGEX-FULL; SEARCH (_search walks the default pre-order iterator with the "
        "caller's add_self, skips non-matches, yields each match once); EXH-5 (index access: refusal classes and resolution order "
        "node_id -> data_id -> data; __contains__ == find_first); MUST (__delitem__); PURE; KWARGS-FWD.",
        "regex semantics, the match set as a value",
    ),
    "C10": _p(
        "PURE for all relationship queries; ID-EQ (positions found by identity); OPT-DEREF; PARENT-WALK (the parent-walk family "
        "stops at the system root by the same test, `parent` maps the root to None, end-of-list accessors, counts and height "
        "definitions); EXIST-CMP; RANGE-GUARD.",
        "the numeric results for concrete trees",
    ),
    "C11": _p(
        "PURE w.r.t. both inputs; DIFF (every classification assigned and rendered; REMOVED on copies of first-tree children, ADDED "
        "on copies of second-tree children; compare(t0 root, t1 root, result root); one-sided children by data_id; moves re-label "
        "members of the added/removed sets; order marks (old, new) only under ordered; reduce filters on the same meta key); "
        "KWARGS-FWD Tree.diff.",
        "the projection laws, i.e. the content of the result",
    ),
    "C12": _p(
        "KEYS against the user guide's literal examples (header and structural keys), FMT (1-based indices with 0 for the root in "
        "writer and both readers, parent index recorded before children, clone references, maps, header validation in load, default "
        "key maps as documented), SIB-ENTRY, PURE.",
        "byte-level output; documents produced by other means beyond the examples' key sets",
    ),
    "C13": _p(
        "ORDER-VBM (no CFG path write -> refusal without the inverse write, refusals include raising callees, guard-aware); REG-CHK "
        "rollback; CB-CRIT (no user callback between the first and last structural write of a primitive); PURE for the read-only "
        "operations the property lists; FRAME set_data decision.",
        "exceptions from deep inside Python containers; what a callback does besides raising",
    ),
    "C14": _p(
        "KEYS (data, data_id, children written and read), FMT (data_id only when not default, recursion in child order on both "
        "sides, to_dict_list one dict per top-level node), OPT-DEREF (emptied tree), LOCK, PURE.",
        "round-trip equality, mappers",
    ),
    "C15": _p(
        "KIND-BRANCH (any-kind branch reads the unfiltered list, kind branch compares _kind by equality, defaults), RANGE-GUARD, "
        "EXIST-CMP, OPT-DEREF, ID-EQ, CALL-BIND/UNCALLED/LSP-SIG on the typed wrappers, MUST (_kind set), PURE.",
        "equality with 'filter the child list by kind' as a value",
    ),
    "C16": _p(
        "RENDER (style table well-formed: 4/6 string segments, indent segments of equal width, compact styles distinguish "
        "has-children; _get_prefix: one indent segment per ancestor by identity-last, connector by (last, has children), both "
        "arities accepted, others refused; one line per node of the default walk; the prefix path calls no kind-sensitive override; "
        "title plumbing); KWARGS-FWD on format/format_iter/print; PURE.",
        "the text",
    ),
    "C17": _p(
        "SIB-EXPORT (DOT and Mermaid: same walk for nodes and edges, one key function, exactly the excluded root's edges skipped, "
        "one edge per node, typed labels; RDF triples), OPT-TRUTH, KWARGS-FWD on the seven export wrappers, PURE.",
        "the emitted text/graph as a value",
    ),
    "C18": _p(
        "Lockset analysis, fully in family: LOCK-1 every structural read of save/copy/filtered/copy_to/to_dict_list/to_dotfile (and "
        "subclass overrides) happens inside `with tree:` or in a callee that locks; LOCK-2 __enter__ acquires (blocking) and returns "
        "self, __exit__ releases exactly once on every path and does not swallow; LOCK-3 the lock is created once as threading.RLock "
        "and every subclass constructor reaches Tree.__init__; LOCK-4 no nested foreign tree lock (positive control on every run).",
        "that writers use `with tree:` (the property assumes it)",
    ),
    "C19": _p(
        "FS (both branches build the same entry shapes with size<-st_size, mdate<-st_mtime; one recursion per directory below its "
        "own node; sorted branch: files by name then directories by name, returning before the unsorted scan), KEYS for the "
        "FileSystemTree mappers, FMT key-map collision (why DEFAULT_KEY_MAP is {}).",
        "agreement with an actual directory; OS behaviour",
    ),
    "C20": _p(
        "GEN (every Randomizer.generate tests the skip probability first; merge order * -> type -> relation; counts resolved; "
        "1-based idx and dotted hier_idx both supplied; skipped keys removed after the scan; typed parents get kind=node_type; "
        "children only for types with relations; requested class instantiated), ITER-INV(c) in _resolve_random_dict, KWARGS-FWD.",
        "every numeric clause (ranges, counts, probability)",
    ),
}
