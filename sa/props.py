"""Property table: what is decided statically per property, and what is not.

Importing this module registers all rules."""
from __future__ import annotations

from .rules import own, pair, order, values, lock, calls, trav, sib, fmt  # noqa: F401

#: hand-confirmed floors for the units analysed (fail closed below)
UNIT_FLOORS = {"modules": 11, "classes": 26, "functions": 235, "call_sites": 680}
#: weakly (name-only) resolved call sites tolerated
MAX_WEAK_SITES = 3

_COMMON_ASSUME = [
    "static analysis of /repo/nutree/*.py only; nothing is imported or executed",
    "the claim is the conjunction of the listed structural clauses, each a necessary condition; "
    "the behaviour over runtime values is NOT decided",
    "no monkey-patching / out-of-package subclasses / object.__setattr__",
    "user callbacks do not mutate the tree; user data objects are not Node/Tree instances",
]


def _p(explanation: str, not_decided: str, extra=()):
    return {"explanation": explanation, "not_decided": not_decided,
            "assumptions": _COMMON_ASSUME + list(extra)}


PROPS = {
    "C01": _p(
        "Inductive skeleton of the tree invariant: OWN-1 closes the set of writers of the structural "
        "fields; PAIR-1/2 pair linking with registration and unlinking with complete, children-first "
        "unregistration on every CFG path of every owner-layer mutator; MUST-EFFECT fixes the writes each "
        "primitive must perform on every normal path; REG-CHK tests node-id uniqueness before the id map is "
        "written and rolls back on refusal; ID-EQ forces identity (not ==) when a node is taken out of a child "
        "list; GUARD-CYCLE demands an ancestry refusal before re-parenting; ITER-INV forbids mutating a child "
        "list while it is iterated.",
        "that guard conditions are right for every tree shape; list.sort's permutation property; concrete histories",
    ),
    "C13": _p("ORDER-VBM, CB-CRIT, REG-CHK rollback, PURE for read-only operations.", "exceptions from deep inside containers"),
    "C08": _p("filter rules", "kept set"),
    "C02": _p(
        "Index exactness clauses: OWN-1 for the two maps and _data/_data_id; PAIR-3 (every re-key moves the node "
        "between slots on every branch of set_data); REG-CHK / UNREG-SHAPE (append on register, identity removal "
        "and empty-slot deletion on unregister); ID-EQ on clone lists; ESCAPE (no API returns the internal clone "
        "list); LIMIT on the index path; FALSY (falsy ids/data are not special); DATAID-DEF (explicit id, else "
        "hook, else hash) and who-may-call calc_data_id.",
        "hash collisions, user __eq__/__hash__, the lists' contents for a concrete history",
    ),
}
