"""Structural patterns over the syntax tree with metavariables, so that rules
can ask for a *shape* without freezing local variable names.

    $x    matches any plain name (local variable); the same $x must bind the
          same name everywhere in the pattern
    $$x   matches any expression (bound consistently by structural equality)
    $_    matches any expression, not bound

Everything else (attribute names, called function names, constants,
operators) is literal.  Patterns are Python source: an expression or one
statement.  Compound statements match their header and, if the pattern gives a
body, the body statement by statement.
"""
from __future__ import annotations

import ast
import re
from typing import Dict, Iterator, List, Optional, Tuple

_CACHE: Dict[str, ast.AST] = {}


def P(src: str) -> ast.AST:
    """Compile a pattern (expression or single statement)."""
    if src in _CACHE:
        return _CACHE[src]
    # `$` inside string literals is literal text ('$key_map'), not a metavariable
    def _protect(mo):
        lit = mo.group(0)
        if lit[0] in "fF":  # f-string: `{$x}` stays a metavariable, other `$` are text
            return re.sub(r"\$(?![\w$]*\})", "\x00", lit) if "{" in lit else lit.replace("$", "\x00")
        return lit.replace("$", "\x00")

    s = re.sub(r"[fF]?'[^'\n]*'|[fF]?\"[^\"\n]*\"", _protect, src)
    s = re.sub(r"\$\$(\w+)", r"__E_\1__", s)
    s = re.sub(r"\$_\b", "__ANY__", s)
    s = re.sub(r"\$(\w+)", r"__N_\1__", s)
    s = s.replace("\x00", "$")
    try:
        node: ast.AST = ast.parse(s, mode="eval").body
    except SyntaxError:
        mod = ast.parse(s)
        if len(mod.body) != 1:
            raise ValueError(f"pattern must be one statement: {src}")
        node = mod.body[0]
        if isinstance(node, ast.Expr):
            node = node.value
    _CACHE[src] = node
    return node


def _same(a: ast.AST, b: ast.AST) -> bool:
    return ast.dump(a) == ast.dump(b)


_IGNORED = {"ctx", "lineno", "col_offset", "end_lineno", "end_col_offset", "type_comment", "kind"}


def _unify(p, n, env: Dict[str, object]) -> bool:
    if isinstance(p, ast.Name):
        m = re.fullmatch(r"__N_(\w+)__", p.id)
        if m:
            if not isinstance(n, ast.Name):
                return False
            k = "$" + m.group(1)
            if k in env:
                return env[k] == n.id
            env[k] = n.id
            return True
        m = re.fullmatch(r"__E_(\w+)__", p.id)
        if m:
            if not isinstance(n, ast.AST):
                return False
            k = "$$" + m.group(1)
            if k in env:
                return _same(env[k], n)  # type: ignore[arg-type]
            env[k] = n
            return True
        if p.id == "__ANY__":
            return isinstance(n, ast.AST)
    if isinstance(p, ast.arg) and isinstance(n, ast.arg):
        m = re.fullmatch(r"__N_(\w+)__", p.arg)
        if m:
            k = "$" + m.group(1)
            if k in env:
                return env[k] == n.arg
            env[k] = n.arg
            return True
    if isinstance(p, ast.Expr) and not isinstance(n, ast.Expr):
        return _unify(p.value, n, env)
    if isinstance(n, ast.Expr) and not isinstance(p, ast.Expr) and isinstance(p, ast.expr):
        return _unify(p, n.value, env)
    if type(p) is not type(n):
        return False
    if isinstance(p, ast.AST):
        for f in p._fields:
            if f in _IGNORED:
                continue
            pv, nv = getattr(p, f, None), getattr(n, f, None)
            if f in ("body", "orelse", "finalbody", "handlers") and isinstance(pv, list):
                # a pattern body consisting of a single `...` matches any body
                if len(pv) == 1 and isinstance(pv[0], ast.Expr) and isinstance(pv[0].value, ast.Constant) and pv[0].value.value is Ellipsis:
                    continue
                if f == "orelse" and not pv:
                    continue  # pattern does not constrain the else part
            if isinstance(pv, str) and isinstance(nv, str) and isinstance(p, (ast.ExceptHandler,)) and f == "name":
                m = re.fullmatch(r"__N_(\w+)__", pv)
                if m:
                    k = "$" + m.group(1)
                    if k in env and env[k] != nv:
                        return False
                    env[k] = nv
                    continue
            if not _unify(pv, nv, env):
                return False
        return True
    if isinstance(p, list):
        if not isinstance(n, list) or len(p) != len(n):
            return False
        return all(_unify(a, b, env) for a, b in zip(p, n))
    return p == n


def match(pattern, node, env: Optional[Dict[str, object]] = None) -> Optional[Dict[str, object]]:
    """Bindings if node matches the pattern, else None. `env` pre-binds
    metavariables ('$x' -> name string, '$$x' -> ast node)."""
    if isinstance(pattern, str):
        pattern = P(pattern)
    if isinstance(env, tuple):  # a (node, bindings) pair as returned by one()/find()
        env = env[1]
    e: Dict[str, object] = dict(env or {})
    if node is None:
        return None
    return e if _unify(pattern, node, e) else None


def find(pattern, root, env: Optional[Dict[str, object]] = None) -> List[Tuple[ast.AST, Dict[str, object]]]:
    """All nodes below root (inclusive) that match."""
    if isinstance(pattern, str):
        pattern = P(pattern)
    out = []
    roots = root if isinstance(root, list) else [root]
    for r in roots:
        for n in ast.walk(r):
            if isinstance(n, ast.Expr):
                continue  # matched through its value
            e = match(pattern, n, env)
            if e is not None:
                out.append((n, e))
    return out


def has(pattern, root, env=None) -> bool:
    return bool(find(pattern, root, env))


def one(pattern, root, env=None) -> Optional[Tuple[ast.AST, Dict[str, object]]]:
    r = find(pattern, root, env)
    return r[0] if len(r) == 1 else None


def name(env: Dict[str, object], k: str) -> str:
    v = env.get(k)
    return v if isinstance(v, str) else ""
